"""rules shared by several properties"""
import ast

from ..program import AnalysisError, src, norm, ClassInfo
from ..util import is_name, calls_in, callee_qual, ancestors, in_handler_of, raised_class, is_subclass, cls_name, names_in

REPR_METHODS = ('__repr__', '__str__', '_m_repr')


def option_usage(ctx, class_qualnames, external_readers=()):
    """every constructor option is honoured: a parameter of __init__ is either
    consumed there (used in an expression other than a plain store to self /
    a validation that only raises) or stored in an attribute that some
    evaluation method (not __repr__) reads"""
    p = ctx.program
    for q in class_qualnames:
        c = ctx.cls(q)
        init = c.methods.get('__init__')
        if init is None:
            ctx.ob(True, c, '%s has no options of its own' % c.name)
            continue
        selfn = init.self_name()
        stored = {}          # attr -> set of param names it derives from
        for n in init.own_nodes():
            if isinstance(n, ast.Assign):
                pairs = []
                for t in n.targets:
                    if isinstance(t, ast.Attribute) and is_name(t.value, selfn):
                        pairs.append((t.attr, n.value))
                    elif isinstance(t, ast.Tuple) and isinstance(n.value, ast.Tuple) and len(t.elts) == len(n.value.elts):
                        for a, b in zip(t.elts, n.value.elts):
                            if isinstance(a, ast.Attribute) and is_name(a.value, selfn):
                                pairs.append((a.attr, b))
                for attr, v in pairs:
                    stored.setdefault(attr, set()).update(x.id for x in ast.walk(v) if isinstance(x, ast.Name))
        # readers
        readers = {}
        classes = [c] + p.subclasses(c, strict=True)
        for k in classes:
            for u in p.units.values():
                top = u
                while top.parent is not None:
                    top = top.parent
                if top.cls is not k or top.name in ('__init__',) + REPR_METHODS:
                    continue
                sn = top.self_name()
                for n in u.own_nodes():
                    if isinstance(n, ast.Attribute) and isinstance(n.ctx, ast.Load) and is_name(n.value, sn):
                        readers.setdefault(n.attr, []).append(u)
        for q2 in external_readers:
            eu = ctx.unit(q2)
            for n in eu.own_nodes():
                if isinstance(n, ast.Attribute) and isinstance(n.ctx, ast.Load):
                    readers.setdefault(n.attr, []).append(eu)
        # parameters consumed by the constructor itself (outside plain stores and raise statements)
        consumed = set()
        store_stmts = set()
        for n in init.own_nodes():
            if isinstance(n, ast.Assign) and all(
                    (isinstance(t, ast.Attribute) and is_name(t.value, selfn)) or
                    (isinstance(t, ast.Tuple) and all(isinstance(e, ast.Attribute) for e in t.elts)) for t in n.targets) \
                    and all(isinstance(x, (ast.Name, ast.Tuple, ast.Load, ast.Store, ast.Attribute)) for x in ast.walk(n)):
                store_stmts.add(n)
        for n in init.own_nodes():
            if isinstance(n, ast.Name) and isinstance(n.ctx, ast.Load):
                anc = list(ancestors(n))
                if any(a in store_stmts for a in anc) or any(isinstance(a, ast.Raise) for a in anc):
                    continue
                consumed.add(n.id)
        for attr, srcs in sorted(stored.items()):
            if attr.startswith('_orig'):
                continue        # kept for repr only
            used = attr in readers or bool(srcs & consumed & (set(init.all_params) - {init.kwarg, init.vararg}))
            ctx.ob(used, c, 'option %s.%s is read by an evaluation method' % (c.name, attr),
                   '' if used else 'stored by the constructor but never consulted when the spec is evaluated', node=init.node)


def raise_discipline(ctx, unit_qualnames, want='MatchError', also_ok=()):
    """every raise of a *new* exception in the given units raises a subclass of
    ``want``; re-raises (bare / caught variable / variable bound from a caught
    GlomError) are accepted; a raise guarded by a failed isinstance test must
    be a TypeMatchError.  returns number of raise sites"""
    p = ctx.program
    n = 0
    for q in unit_qualnames:
        u = ctx.unit(q)
        cfg = ctx.cfg(u)
        for r in [x for x in u.own_nodes() if isinstance(x, ast.Raise)]:
            n += 1
            rn = cfg.node_of(r)
            if rn is not None and r.exc is not None and not cfg.escapes(rn) and cfg.handlers_reached_from(rn):
                ctx.ob(True, u, 'internal control-flow exception, always caught in the same function: %s' % norm(r), node=r)
                continue
            if r.exc is None:
                hs = in_handler_of(r)
                ctx.ob(bool(hs), u, 're-raise inside a handler: %s' % norm(r), node=r)
                continue
            if isinstance(r.exc, ast.Name):
                # a variable: must be bound only from caught exceptions
                node = cfg.node_of(r)
                defs = cfg.reaching_defs(node, r.exc.id)
                ok = bool(defs)
                for dn, v in defs:
                    if isinstance(v, tuple) and v[0] == 'exc':
                        continue
                    if isinstance(v, ast.Name) and any(h.name == v.id for h in in_handler_of(dn.ast) if dn.ast is not None):
                        continue
                    ok = False
                ctx.ob(ok, u, 're-raises a caught error: %s' % norm(r),
                       '' if ok else 'the raised variable may hold something other than a caught exception', node=r)
                continue
            rc = raised_class(p, u, r)
            if rc is None:
                ctx.ob(False, u, 'raised class is statically known: %s' % norm(r), node=r)
                continue
            ok = is_subclass(rc, want) or cls_name(rc) in also_ok
            ctx.ob(ok, u, 'rejection raises a %s: %s' % (want, src(r, 70)),
                   '' if ok else '%s is not a %s' % (cls_name(rc), want), node=r)
            # type rule?
            g = [a for a in ancestors(r) if isinstance(a, ast.If)]
            if g:
                t = g[0].test
                if isinstance(t, ast.UnaryOp) and isinstance(t.op, ast.Not) and isinstance(t.operand, ast.Call) \
                        and is_name(t.operand.func, 'isinstance') and r in g[0].body:
                    okt = is_subclass(rc, 'TypeMatchError')
                    ctx.ob(okt, u, 'a failed type rule raises TypeMatchError: %s' % src(r, 70),
                           '' if okt else 'isinstance rule rejected with %s' % cls_name(rc), node=r)
    return n


# parameters defaulting to None / _MISSING that the pinned tree tests by truth value, each
# confirmed harmless by reading: the replacement is an empty container / text of the same meaning
TRUTH_TESTED_DEFAULTS = {
    ('core.format_invocation', 'kwargs'): 'an empty mapping is replaced by an empty dict that is only iterated',
    ('core.Spec.__init__', 'scope'): 'an empty mapping is replaced by an empty dict that is only read (scope.update)',
    ('core.format_target_spec_trace.mk_fmt', 't'): 'a line prefix: the empty string is never passed',
}


def absent_means_none(ctx, modules, classes=None):
    """a parameter whose default is None / _MISSING stands for "not given"; whether it was given is
    decided by identity (``p is None``), never by truth value: a falsy argument (0, '', (), {},
    an empty spec, a callable object with __len__ == 0) is an argument"""
    p = ctx.program
    n = 0
    for u in p.package_units():
        if u.is_lambda or u.module.short not in modules:
            continue
        if classes is not None:
            top = u
            while top.parent is not None:
                top = top.parent
            if top.cls is None or top.cls.name not in classes:
                continue
        a = u.node.args
        allp = [x.arg for x in a.posonlyargs + a.args]
        nd = len(a.defaults)
        dfl = dict(zip(allp[len(allp) - nd:], a.defaults)) if nd else {}
        for k, d in zip(a.kwonlyargs, a.kw_defaults):
            if d is not None:
                dfl[k.arg] = d
        absent = [k for k, d in dfl.items() if (isinstance(d, ast.Constant) and d.value is None)
                  or (isinstance(d, ast.Name) and d.id == '_MISSING')]
        if not absent:
            continue
        rebound = {x.id for x in u.own_nodes() if isinstance(x, ast.Name) and isinstance(x.ctx, ast.Store)}
        truth = {}
        for x in u.own_nodes():
            tests = []
            if isinstance(x, (ast.If, ast.IfExp, ast.While)):
                tests.append(x.test)
            elif isinstance(x, ast.BoolOp):
                tests += x.values[:-1]
            elif isinstance(x, ast.Assert):
                tests.append(x.test)
            for t in tests:
                for y in (t.values if isinstance(t, ast.BoolOp) else [t]):
                    z = y.operand if isinstance(y, ast.UnaryOp) and isinstance(y.op, ast.Not) else y
                    if isinstance(z, ast.Name) and z.id in absent:
                        truth.setdefault(z.id, []).append(x)
        for prm in absent:
            n += 1
            hits = truth.get(prm, [])
            # a parameter first normalised by an identity test (``if p is None: p = D``) may be
            # truth-tested afterwards: it no longer stands for "not given"
            normalised = prm in rebound and any(
                isinstance(x, ast.If) and isinstance(x.test, ast.Compare) and is_name(x.test.left, prm)
                and isinstance(x.test.ops[0], (ast.Is, ast.IsNot)) for x in u.own_nodes())
            ok = not hits or normalised or (u.qualname, prm) in TRUTH_TESTED_DEFAULTS
            ctx.ob(ok, u, 'whether %s was given is decided by identity, not by truth value' % prm,
                   '' if ok else 'a falsy %s is taken for a missing one: %s' % (prm, [norm(h)[:60] for h in hits]),
                   node=hits[0] if hits else None)
    ctx.require(n >= 1, 'no optional parameters found in %s' % (modules,))
    return n


# a parameter a constructor converts before storing it: (unit, parameter) -> (why, the only
# operations the conversion may apply).  Everything else is stored as given.
PARAMETER_CONVERSIONS = {
    ('core.Path.startswith', 'other'): ('text / Path are compared as their T expression', {'Path'}),
    ('core.TargetRegistry._register_fuzzy_type', '_type_tree'): ('the op\'s own tree unless a subtree is given', {'OrderedDict'}),
    ('core.TargetRegistry.register_op', 'auto_func'): ('no discovery function: nothing is supported', set()),
    ('grouping.Limit.__init__', 'subspec'): ('the default subspec collects the items', set()),
    ('matching.Switch.__init__', 'cases'): ('a dict of cases is its item list, in the order written', {'list', 'items'}),
    ('matching.Check.glomit', 'target'): ('the checked value is the spec\'s result', None),
    ('mutation.Assign.__init__', 'path'): ('text / T are addressed as a Path', {'Path', 'from_text'}),
    ('mutation.Delete.__init__', 'path'): ('text / T are addressed as a Path', {'Path', 'from_text'}),
    ('reduction.Fold.glomit', 'target'): ('the folded value is the subspec\'s result', None),
    ('reduction.Flatten.__init__', 'init'): ('the default accumulator is a list', set()),
    ('reduction.Merge.__init__', 'op'): ('an op name is looked up on the accumulator\'s type', {'getattr', 'type', 'init'}),
}


def parameters_kept(ctx, modules, classes=None, methods=None):
    """what a constructor (or a T producer) stores / records is what it was given: a parameter
    is never rebound before it is used, except to replace a missing argument (``if p is None:
    p = D``) or through one of the enumerated conversions, each limited to the operations it
    names.  A "tidy" rewrite of an argument (splicing nested pipelines, unwrapping nested errors,
    stripping a trailing underscore, re-ordering cases) changes what the spec means."""
    p = ctx.program
    n = 0
    for u in p.package_units():
        if u.is_lambda or u.module.short not in modules or u.cls is None:
            continue
        if classes is not None and u.cls.name not in classes:
            continue
        if methods is not None and u.name not in methods:
            continue
        params = set(u.params[1:]) | ({u.vararg} if u.vararg else set()) | ({u.kwarg} if u.kwarg else set())
        if not params:
            continue
        cfg = None
        for x in u.own_nodes():
            if not (isinstance(x, ast.Name) and isinstance(x.ctx, ast.Store) and x.id in params):
                continue
            st = [a for a in ancestors(x) if isinstance(a, ast.stmt)][0]
            n += 1
            prm = x.id
            conv = PARAMETER_CONVERSIONS.get((u.qualname, prm))
            # replacing a missing argument: guarded by an identity test on the parameter itself
            guarded = False
            for a in ancestors(st):
                if isinstance(a, ast.If) and isinstance(a.test, ast.Compare) and is_name(a.test.left, prm) \
                        and len(a.test.ops) == 1 and isinstance(a.test.ops[0], ast.Is) \
                        and (isinstance(a.test.comparators[0], ast.Constant) and a.test.comparators[0].value is None
                             or is_name(a.test.comparators[0], '_MISSING')) and st in a.body:
                    guarded = True
            # ... or by its truth value, for the parameters where that was confirmed harmless
            if not guarded and (u.qualname, prm) in TRUTH_TESTED_DEFAULTS:
                for a in ancestors(st):
                    if isinstance(a, ast.If) and isinstance(a.test, ast.UnaryOp) and isinstance(a.test.op, ast.Not) \
                            and is_name(a.test.operand, prm) and st in a.body:
                        guarded = True
            ok = guarded
            why = 'replaces a missing argument'
            if not ok and conv is not None:
                reason, allowed = conv
                why = reason
                if allowed is None:
                    ok = True
                else:
                    val = st.value if isinstance(st, (ast.Assign, ast.AugAssign, ast.AnnAssign)) else None
                    used = set()
                    for c in ast.walk(val) if val is not None else ():
                        if isinstance(c, ast.Call):
                            used.add(c.func.id if isinstance(c.func, ast.Name) else c.func.attr if isinstance(c.func, ast.Attribute) else '?')
                    ok = isinstance(st, ast.Assign) and used <= allowed
                    if not ok:
                        why = '%s -- but the conversion applies %s' % (reason, sorted(used - allowed))
            ctx.ob(ok, u, 'parameter %s is rebound only as documented: %s' % (prm, norm(st)[:70]),
                   why if ok else ('%s changes what was given' % norm(st)[:90] if conv is None else why), node=st)
        if u.name == '__init__':
            n += _stores_plain(ctx, u, params)
    return n


# an attribute a constructor computes from a parameter instead of storing the parameter:
# (constructor, attribute) -> (why, the only callables the computation may apply)
STORE_CONVERSIONS = {
    ('core.Coalesce.__init__', '_orig_kwargs'): ('a snapshot of the keyword arguments for repr', {'dict'}),
    ('matching.Check.__init__', '_orig_kwargs'): ('a snapshot of the keyword arguments for repr', {'dict'}),
    ('core.Inspect.__init__', 'wrapped'): ('no wrapped spec: the identity path', {'Path'}),
    ('core.ScopeVars.__init__', '__dict__'): ('the namespace is a copy of the given mapping', {'dict'}),
    ('core.Glommer.__init__', 'scope'): ('the base scope is a private copy inside a ChainMap', {'ChainMap', 'dict', 'pop'}),
    ('mutation.Assign.__init__', 'op'): ('the last step of the destination path', {'items'}),
    ('mutation.Assign.__init__', 'arg'): ('the last step of the destination path', {'items'}),
    ('mutation.Delete.__init__', 'op'): ('the last step of the destination path', {'items'}),
    ('mutation.Delete.__init__', 'arg'): ('the last step of the destination path', {'items'}),
    ('core.Path.__init__', 'path_t'): ('the parts are joined into one T path, step by step', {'_t_child'}),
    ('matching.Regex.__init__', 'match_func'): ('the bound match method of the compiled pattern', {'compile'}),
    ('matching.Check.__init__', 'validators'): ('one value or an iterable of them, each validated', {'<nested function>', '_get_arg_val'}),
    ('matching.Check.__init__', 'instance_of'): ('one value or an iterable of them, each validated', {'<nested function>', '_get_arg_val', 'isinstance'}),
    ('matching.Check.__init__', 'types'): ('one value or an iterable of them, each validated', {'<nested function>', '_get_arg_val', 'isinstance'}),
    ('streaming.First.__init__', '_first'): ('the call of boltons first() the spec stands for', {'Call', 'Spec', 'partial'}),
}


def _value_closure(u, e, params):
    """the expressions a stored value is computed from: the value, and transitively whatever is
    assigned to / accumulated into / iterated for the locals it mentions"""
    out, work, seen = [e], [e], set()
    nodes = list(u.own_nodes())
    while work:
        x = work.pop()
        for nm in sorted(names_in(x) - seen):
            seen.add(nm)
            for st in nodes:
                vals = []
                if isinstance(st, ast.Assign):
                    for t in st.targets:
                        if is_name(t, nm) and nm not in params:
                            vals.append(st.value)
                        elif isinstance(t, ast.Tuple):
                            for i, el in enumerate(t.elts):
                                if is_name(el, nm):
                                    vals.append(st.value.elts[i] if isinstance(st.value, ast.Tuple) and len(st.value.elts) == len(t.elts)
                                                else st.value)
                elif isinstance(st, ast.AugAssign) and is_name(st.target, nm):
                    vals.append(st.value)
                elif isinstance(st, (ast.For, ast.comprehension)) and nm in names_in(st.target):
                    vals.append(st.iter)
                elif isinstance(st, ast.Expr) and isinstance(st.value, ast.Call) and isinstance(st.value.func, ast.Attribute) \
                        and is_name(st.value.func.value, nm) and nm not in params:
                    vals.append(st.value)
                for v in vals:
                    if not any(v is o for o in out):
                        out.append(v)
                        work.append(v)
    return out


def _stores_plain(ctx, u, params):
    """what ``__init__`` stores from a parameter is the parameter: ``self.a = p``, a keyword taken
    with ``kwargs.pop(name, default)``, or a display / conditional of those -- never a copy, a
    ``p or D`` fallback or another recomputation (directly or through locals), unless the
    conversion is enumerated"""
    selfn = u.params[0]
    n = 0
    for st in u.own_nodes():
        if not isinstance(st, ast.Assign):
            continue
        for t in st.targets:
            elts = t.elts if isinstance(t, ast.Tuple) else [t]
            for i, x in enumerate(elts):
                if not (isinstance(x, ast.Attribute) and is_name(x.value, selfn)):
                    continue
                v = st.value
                if isinstance(t, ast.Tuple) and isinstance(v, ast.Tuple) and len(v.elts) == len(elts):
                    v = v.elts[i]
                exprs = _value_closure(u, v, params)
                if not any(names_in(e) & params for e in exprs):
                    continue
                n += 1
                conv = STORE_CONVERSIONS.get((u.qualname, x.attr))
                allowed = conv[1] if conv else set()
                bad = []
                for c in (c for e in exprs for c in ast.walk(e)):
                    if isinstance(c, ast.Call):
                        f = c.func
                        nm = f.id if isinstance(f, ast.Name) else f.attr if isinstance(f, ast.Attribute) else '?'
                        takes_kw = isinstance(f, ast.Attribute) and f.attr in ('pop', 'get') and is_name(f.value) \
                            and f.value.id in params and f.value.id == u.kwarg
                        # only a call that is handed (or invoked on) something computed from the arguments converts them
                        operands = list(c.args) + [k.value for k in c.keywords] + ([f.value] if isinstance(f, ast.Attribute) else [])
                        involved = any(names_in(o) & (params | set(u.locals)) for o in operands)
                        if is_name(f) and any(ch.name == f.id for ch in u.children):
                            nm = '<nested function>'
                        if involved and not takes_kw and nm not in allowed:
                            bad.append('%s()' % nm)
                    elif isinstance(c, ast.BoolOp) and is_name(c.values[0]) and (u.qualname, c.values[0].id) in TRUTH_TESTED_DEFAULTS:
                        pass    # confirmed by reading: the falsy argument and its replacement mean the same
                    elif isinstance(c, ast.BoolOp):
                        bad.append("'%s' fallback" % ('or' if isinstance(c.op, ast.Or) else 'and'))
                ok = not bad
                ctx.ob(ok, u, '%s.%s is stored as given: %s' % (u.cls.name, x.attr, norm(st)[:70]),
                       (conv[0] if conv else 'the argument itself') if ok else
                       'what is stored is not the argument: %s is applied to it' % ', '.join(sorted(set(bad))), node=st)
    return n


def recorded_as_given(ctx):
    """every T producer records its operand exactly as received (the replay applies the recorded
    value): the argument handed to the op-tuple writer is the method's own parameter, or a
    display / concatenation of parameters and constants, never a value recomputed from it"""
    p = ctx.program
    c = ctx.cls('core.TType')
    n = 0
    for name, u in sorted(c.methods.items()):
        params = set(u.params[1:]) | ({u.vararg} if u.vararg else set()) | ({u.kwarg} if u.kwarg else set())
        for call in calls_in(u):
            if callee_qual(p, u, call) != 'core._t_child' or len(call.args) < 3:
                continue
            n += 1
            a = call.args[2]

            def plain(e):
                if isinstance(e, ast.Constant):
                    return True
                if isinstance(e, ast.Name):
                    return e.id in params
                if isinstance(e, ast.Tuple):
                    return all(plain(x) for x in e.elts)
                if isinstance(e, ast.BinOp) and isinstance(e.op, ast.Add):
                    return plain(e.left) and plain(e.right)
                return False
            rebound = [x.id for x in u.own_nodes() if isinstance(x, ast.Name) and isinstance(x.ctx, ast.Store) and x.id in params]
            ok = plain(a) and not rebound
            ctx.ob(ok, u, 'T.%s records its operand as received: %s' % (name, norm(call)[:70]),
                   '' if ok else ('the operand is recomputed before it is recorded (%s rebound)' % rebound if rebound else 'the recorded value is not the operand itself'),
                   node=call)
    ctx.require(n >= 15, 'T producers not found (%d)' % n)
    return n


def attributes_stored_once(ctx, modules, classes=None):
    """a constructor decides each attribute once: no path through ``__init__`` stores the same
    attribute of self twice.  A second store is a rewrite of what the first one recorded
    (``self.op = 'P'`` after ``self.op, self.arg = path.items()[-1]``: the final attribute step of
    an Assign destination silently becomes a handler lookup)"""
    p = ctx.program
    n = 0
    for u in p.package_units():
        if u.is_lambda or u.module.short not in modules or u.cls is None or u.name != '__init__':
            continue
        if classes is not None and u.cls.name not in classes:
            continue
        cfg = ctx.cfg(u)
        selfn = u.params[0]
        stores = {}
        for nd in cfg.nodes:
            if nd.kind != 'stmt' or not isinstance(nd.ast, (ast.Assign, ast.AugAssign, ast.AnnAssign)):
                continue
            tg = nd.ast.targets if isinstance(nd.ast, ast.Assign) else [nd.ast.target]
            for t in tg:
                for x in (t.elts if isinstance(t, ast.Tuple) else [t]):
                    if isinstance(x, ast.Attribute) and is_name(x.value, selfn):
                        stores.setdefault(x.attr, []).append(nd)
        for attr, nodes in sorted(stores.items()):
            n += 1
            twice = [(a, b) for a in nodes for b in nodes if a is not b and cfg.find_path(a, {b}, labels=lambda l: l != 'exc') is not None]
            ctx.ob(not twice, u, '%s.%s is decided once' % (u.cls.name, attr),
                   '' if not twice else 'rewritten after it was stored: %s then %s' % (norm(twice[0][0].ast)[:50], norm(twice[0][1].ast)[:50]),
                   node=twice[0][1].ast if twice else None)
    return n


def wrappers_forward_their_parameters(ctx, quals):
    """the module-level / Glommer wrappers of the registration API hand every parameter they
    accept on to the registry: a parameter that is named in the signature but not forwarded
    (``def register(target_type, exact=False, **kwargs)`` forwarding only ``**kwargs``) is
    silently ignored"""
    p = ctx.program
    n = 0
    for q in quals:
        u = ctx.unit(q)
        params = [x for x in u.params if x not in ('self',)] + ([u.vararg] if u.vararg else []) + ([u.kwarg] if u.kwarg else [])
        if u.cls is not None:
            params = [x for x in params if x != u.params[0]]
        calls = [c for c in calls_in(u) if isinstance(c.func, ast.Attribute) and c.func.attr in ('register', 'register_op')]
        ctx.ob(len(calls) == 1, u, '%s forwards to the registry: %s' % (q, [norm(c)[:60] for c in calls]))
        if len(calls) != 1:
            continue
        used = {x.id for x in ast.walk(calls[0]) if isinstance(x, ast.Name)}
        # a parameter may also reach the call through a local derived from it (exact = kwargs.pop(..))
        for st in u.own_nodes():
            if isinstance(st, ast.Assign) and is_name(st.targets[0]) and st.targets[0].id in used:
                used |= {x.id for x in ast.walk(st.value) if isinstance(x, ast.Name)}
        for prm in params:
            n += 1
            ctx.ob(prm in used, u, '%s passes %s on' % (q, prm), '' if prm in used else 'accepted and ignored', node=calls[0])
    return n


# optional arguments for which None is a meaningful value: "not given" is the private sentinel.
# (unit, keyword) -> why None must stay distinguishable from an absent argument
NONE_IS_A_VALUE = {
    ('core.Coalesce.__init__', 'default'): 'default=None is the classic "give me None when nothing is found"',
    ('core.Coalesce.__init__', 'skip'): 'skip=None skips None results',
    ('matching.Match.__init__', 'default'): 'a failed match may default to None',
    ('matching._Bool.__init__', 'default'): 'And / Or / Not(..., default=None)',
    ('matching.Optional.__init__', 'default'): 'an absent optional key may default to None',
    ('matching.Switch.__init__', 'default'): 'no case matched: default=None',
    ('matching.Check.__init__', 'equal_to'): 'Check(equal_to=None) compares against None',
    ('matching.Check.__init__', 'one_of'): 'one_of=None is not iterable: a construction error, not "unset"',
    ('matching.Check.__init__', 'type'): 'type=None is not a type: a construction error, not "unset"',
    ('matching.Check.__init__', 'instance_of'): 'instance_of=None is not a type: a construction error, not "unset"',
    ('streaming.Iter.chunked', 'fill'): 'chunked(n, fill=None) pads with None',
}


def none_is_a_value(ctx, quals=None):
    """for an optional argument that may legitimately be None, "not given" is a private sentinel
    (a make_sentinel() object), in the signature / the ``kwargs.pop`` default and in every identity
    test that decides whether it was given: with None as the marker, an explicit None silently
    becomes "no argument" (``Check(equal_to=None)`` would accept everything)"""
    from ..util import choice_leaves
    p = ctx.program
    n = 0

    def is_sentinel(mod, e):
        if not isinstance(e, ast.Name):
            return False
        for st in mod.tree.body:
            if isinstance(st, ast.Assign) and any(is_name(t, e.id) for t in st.targets):
                v = st.value
                return isinstance(v, ast.Call) and (is_name(v.func, 'make_sentinel') or is_name(v.func, 'object'))
            if isinstance(st, ast.ImportFrom) and any((a.asname or a.name) == e.id for a in st.names):
                return e.id.isupper() or e.id.startswith('_')     # a sentinel imported from a sibling module
        return False

    for (q, kw), why in sorted(NONE_IS_A_VALUE.items()):
        if quals is not None and q not in quals:
            continue
        u = ctx.unit(q)
        a = u.node.args
        allp = [x.arg for x in a.posonlyargs + a.args]
        nd = len(a.defaults)
        dfl = dict(zip(allp[len(allp) - nd:], a.defaults)) if nd else {}
        for k, d in zip(a.kwonlyargs, a.kw_defaults):
            if d is not None:
                dfl[k.arg] = d
        defaults, local = [], None
        if kw in dfl:
            defaults.append(dfl[kw])
            local = kw
        else:
            for c in calls_in(u):
                f = c.func
                if isinstance(f, ast.Attribute) and f.attr in ('pop', 'get') and is_name(f.value, u.kwarg) and c.args \
                        and isinstance(c.args[0], ast.Constant) and c.args[0].value == kw:
                    defaults.append(c.args[1] if len(c.args) > 1 else ast.Constant(None))
                    par = getattr(c, 'parent', None)
                    st = [x for x in ancestors(c) if isinstance(x, ast.stmt)]
                    if st and isinstance(st[0], ast.Assign) and st[0].value is c and is_name(st[0].targets[0]):
                        local = st[0].targets[0].id
        ctx.require(defaults, 'optional argument %s of %s not found' % (kw, q))
        n += 1
        leaves = [l for d in defaults for l in choice_leaves(d)]
        none_default = [l for l in leaves if isinstance(l, ast.Constant) and l.value is None]
        ok = not none_default and any(is_sentinel(u.module, l) for l in leaves)
        ctx.ob(ok, u, '"%s not given" is a private sentinel: %s' % (kw, ', '.join(norm(d) for d in defaults)),
               why if ok else 'None (or a public value) marks the missing argument -- %s' % why, node=defaults[0])
        if local is None:
            continue
        tests = [x for x in u.own_nodes() if isinstance(x, ast.Compare) and is_name(x.left, local) and len(x.ops) == 1
                 and isinstance(x.ops[0], (ast.Is, ast.IsNot)) and isinstance(x.comparators[0], ast.Constant)
                 and x.comparators[0].value is None]
        ctx.ob(not tests, u, 'whether %s was given is never decided by comparing it with None' % kw,
               '' if not tests else '%s -- %s' % (norm(tests[0]), why), node=tests[0] if tests else None)
    ctx.require(n >= 1, 'no optional arguments examined')
    return n


def scope_keys_have_one_definition(ctx, names=None):
    """the evaluator's scope markers (MODE, CUR_AGG, ACC_TREE, ...) are sentinel objects compared
    by identity: every module that reads or writes ``scope[MARKER]`` must mean the same object, so
    each marker name resolves -- through the imports -- to a single module-level definition.  A
    module that mints its own sentinel of the same name talks to nobody (a Fold would not see the
    reset Group makes for the buckets below it)"""
    from ..program import GlobalVar
    p = ctx.program
    uses = {}
    for u in p.package_units():
        for x in u.own_nodes():
            keys = []
            if isinstance(x, ast.Subscript):
                keys.append(x.slice)
            elif isinstance(x, ast.Call) and isinstance(x.func, ast.Attribute) and x.func.attr in ('get', 'setdefault', 'pop') and x.args:
                keys.append(x.args[0])
            elif isinstance(x, ast.Compare) and len(x.ops) == 1 and isinstance(x.ops[0], (ast.In, ast.NotIn)):
                keys.append(x.left)
            for k in keys:
                if not (isinstance(k, ast.Name) and k.id.isupper()):
                    continue
                d = p.resolve_name(u, k.id)
                if isinstance(d, GlobalVar) and any(isinstance(v, ast.Call) and is_name(v.func, 'make_sentinel') for v in d.values):
                    uses.setdefault(k.id, {}).setdefault(d.module.short, []).append((u, x))
    ctx.require({'MODE', 'CUR_AGG', 'ACC_TREE', 'MIN_MODE'} <= set(uses), 'scope markers not found (%s)' % sorted(uses))
    n = 0
    for name, by_mod in sorted(uses.items()):
        if names is not None and name not in names:
            continue
        n += 1
        ok = len(by_mod) == 1
        minority = min(by_mod.items(), key=lambda kv: len(kv[1]))
        u, x = minority[1][0]
        ctx.ob(ok, u, 'scope marker %s is one object package-wide (defined in %s, used at %d sites)'
               % (name, sorted(by_mod), sum(len(v) for v in by_mod.values())),
               '' if ok else '%s here is the sentinel minted in %s; elsewhere it is the one from %s: the two sides never meet'
               % (norm(x)[:60], minority[0], sorted(set(by_mod) - {minority[0]})), node=x)
    return n
