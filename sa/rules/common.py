"""rules shared by several properties"""
import ast

from ..program import AnalysisError, src, norm, ClassInfo
from ..util import is_name, calls_in, callee_qual, ancestors, in_handler_of, raised_class, is_subclass, cls_name

REPR_METHODS = ('__repr__', '__str__', '_m_repr')


def option_usage(ctx, class_qualnames, external_readers=()):
    """every constructor option is honoured: a parameter of __init__ is either
    consumed there (used in an expression other than a plain store to self /
    a validation that only raises) or stored in an attribute that some
    evaluation method (not __repr__) reads"""
    p = ctx.program
    for q in class_qualnames:
        c = ctx.cls(q)
        init = c.methods.get('__init__')
        if init is None:
            ctx.ob(True, c, '%s has no options of its own' % c.name)
            continue
        selfn = init.self_name()
        stored = {}          # attr -> set of param names it derives from
        for n in init.own_nodes():
            if isinstance(n, ast.Assign):
                pairs = []
                for t in n.targets:
                    if isinstance(t, ast.Attribute) and is_name(t.value, selfn):
                        pairs.append((t.attr, n.value))
                    elif isinstance(t, ast.Tuple) and isinstance(n.value, ast.Tuple) and len(t.elts) == len(n.value.elts):
                        for a, b in zip(t.elts, n.value.elts):
                            if isinstance(a, ast.Attribute) and is_name(a.value, selfn):
                                pairs.append((a.attr, b))
                for attr, v in pairs:
                    stored.setdefault(attr, set()).update(x.id for x in ast.walk(v) if isinstance(x, ast.Name))
        # readers
        readers = {}
        classes = [c] + p.subclasses(c, strict=True)
        for k in classes:
            for u in p.units.values():
                top = u
                while top.parent is not None:
                    top = top.parent
                if top.cls is not k or top.name in ('__init__',) + REPR_METHODS:
                    continue
                sn = top.self_name()
                for n in u.own_nodes():
                    if isinstance(n, ast.Attribute) and isinstance(n.ctx, ast.Load) and is_name(n.value, sn):
                        readers.setdefault(n.attr, []).append(u)
        for q2 in external_readers:
            eu = ctx.unit(q2)
            for n in eu.own_nodes():
                if isinstance(n, ast.Attribute) and isinstance(n.ctx, ast.Load):
                    readers.setdefault(n.attr, []).append(eu)
        # parameters consumed by the constructor itself (outside plain stores and raise statements)
        consumed = set()
        store_stmts = set()
        for n in init.own_nodes():
            if isinstance(n, ast.Assign) and all(
                    (isinstance(t, ast.Attribute) and is_name(t.value, selfn)) or
                    (isinstance(t, ast.Tuple) and all(isinstance(e, ast.Attribute) for e in t.elts)) for t in n.targets) \
                    and all(isinstance(x, (ast.Name, ast.Tuple, ast.Load, ast.Store, ast.Attribute)) for x in ast.walk(n)):
                store_stmts.add(n)
        for n in init.own_nodes():
            if isinstance(n, ast.Name) and isinstance(n.ctx, ast.Load):
                anc = list(ancestors(n))
                if any(a in store_stmts for a in anc) or any(isinstance(a, ast.Raise) for a in anc):
                    continue
                consumed.add(n.id)
        for attr, srcs in sorted(stored.items()):
            if attr.startswith('_orig'):
                continue        # kept for repr only
            used = attr in readers or bool(srcs & consumed & (set(init.all_params) - {init.kwarg, init.vararg}))
            ctx.ob(used, c, 'option %s.%s is read by an evaluation method' % (c.name, attr),
                   '' if used else 'stored by the constructor but never consulted when the spec is evaluated', node=init.node)


def raise_discipline(ctx, unit_qualnames, want='MatchError', also_ok=()):
    """every raise of a *new* exception in the given units raises a subclass of
    ``want``; re-raises (bare / caught variable / variable bound from a caught
    GlomError) are accepted; a raise guarded by a failed isinstance test must
    be a TypeMatchError.  returns number of raise sites"""
    p = ctx.program
    n = 0
    for q in unit_qualnames:
        u = ctx.unit(q)
        cfg = ctx.cfg(u)
        for r in [x for x in u.own_nodes() if isinstance(x, ast.Raise)]:
            n += 1
            rn = cfg.node_of(r)
            if rn is not None and r.exc is not None and not cfg.escapes(rn) and cfg.handlers_reached_from(rn):
                ctx.ob(True, u, 'internal control-flow exception, always caught in the same function: %s' % norm(r), node=r)
                continue
            if r.exc is None:
                hs = in_handler_of(r)
                ctx.ob(bool(hs), u, 're-raise inside a handler: %s' % norm(r), node=r)
                continue
            if isinstance(r.exc, ast.Name):
                # a variable: must be bound only from caught exceptions
                node = cfg.node_of(r)
                defs = cfg.reaching_defs(node, r.exc.id)
                ok = bool(defs)
                for dn, v in defs:
                    if isinstance(v, tuple) and v[0] == 'exc':
                        continue
                    if isinstance(v, ast.Name) and any(h.name == v.id for h in in_handler_of(dn.ast) if dn.ast is not None):
                        continue
                    ok = False
                ctx.ob(ok, u, 're-raises a caught error: %s' % norm(r),
                       '' if ok else 'the raised variable may hold something other than a caught exception', node=r)
                continue
            rc = raised_class(p, u, r)
            if rc is None:
                ctx.ob(False, u, 'raised class is statically known: %s' % norm(r), node=r)
                continue
            ok = is_subclass(rc, want) or cls_name(rc) in also_ok
            ctx.ob(ok, u, 'rejection raises a %s: %s' % (want, src(r, 70)),
                   '' if ok else '%s is not a %s' % (cls_name(rc), want), node=r)
            # type rule?
            g = [a for a in ancestors(r) if isinstance(a, ast.If)]
            if g:
                t = g[0].test
                if isinstance(t, ast.UnaryOp) and isinstance(t.op, ast.Not) and isinstance(t.operand, ast.Call) \
                        and is_name(t.operand.func, 'isinstance') and r in g[0].body:
                    okt = is_subclass(rc, 'TypeMatchError')
                    ctx.ob(okt, u, 'a failed type rule raises TypeMatchError: %s' % src(r, 70),
                           '' if okt else 'isinstance rule rejected with %s' % cls_name(rc), node=r)
    return n
