"""Analysis normal forms applied to every function before the program model is
built (see also inline.py).  Each rewrites one spelling of a construct into the
spelling the rules are written against, and only where the two are equivalent
for everything a rule reads."""
import ast
import copy

_FUNC = (ast.FunctionDef, ast.AsyncFunctionDef, ast.Lambda, ast.ClassDef)


def _own_walk(node):
    """walk without entering nested function/class bodies"""
    stack = [node]
    first = True
    while stack:
        n = stack.pop()
        if not first and isinstance(n, _FUNC):
            continue
        first = False
        yield n
        stack.extend(ast.iter_child_nodes(n))


def _loop_jumps(body, kind):
    """``continue``/``break`` statements bound to the loop whose body this is"""
    out = []

    def walk(stmts):
        for st in stmts:
            if isinstance(st, kind):
                out.append(st)
            if isinstance(st, (ast.For, ast.While, ast.AsyncFor) + _FUNC):
                # a nested loop binds its own jumps; its else clause belongs to us
                if isinstance(st, (ast.For, ast.While, ast.AsyncFor)):
                    walk(st.orelse)
                continue
            for f in ('body', 'orelse', 'finalbody'):
                v = getattr(st, f, None)
                if isinstance(v, list) and v and isinstance(v[0], ast.stmt):
                    walk(v)
            for h in getattr(st, 'handlers', ()):
                walk(h.body)
    walk(body)
    return out


_MUTATORS = {'append', 'extend', 'insert', 'pop', 'remove', 'clear', 'sort', 'reverse', 'update',
             'add', 'discard', 'setdefault', 'popitem', 'appendleft', 'popleft'}


def for_range_to_while(func):
    """``for i in range(a, b, k): B``  ->  ``i = a; while i < b: B; i += k``

    accepted only when the two agree on everything a rule can observe: constant positive
    step, i is used in B (an index loop, not a counted repetition), no ``continue`` bound to the loop, B does not rebind i, i is not read outside
    the loop, and the names in the bound are neither rebound nor receivers of a mutating
    call inside B (``range`` evaluates the bound once)."""

    def convert(loop, enclosing_names_outside):
        if not (isinstance(loop, ast.For) and isinstance(loop.target, ast.Name)):
            return None
        it = loop.iter
        if not (isinstance(it, ast.Call) and isinstance(it.func, ast.Name) and it.func.id == 'range'
                and not it.keywords and 1 <= len(it.args) <= 3):
            return None
        iv = loop.target.id
        if len(it.args) == 1:
            lo, hi, step = ast.Constant(value=0), it.args[0], ast.Constant(value=1)
        elif len(it.args) == 2:
            lo, hi, step = it.args[0], it.args[1], ast.Constant(value=1)
        else:
            lo, hi, step = it.args
        if not (isinstance(step, ast.Constant) and isinstance(step.value, int) and step.value > 0):
            return None
        if _loop_jumps(loop.body, ast.Continue):
            return None
        body_nodes = [n for st in loop.body for n in ast.walk(st)]
        if any(isinstance(n, ast.Name) and n.id == iv and isinstance(n.ctx, (ast.Store, ast.Del)) for n in body_nodes):
            return None
        if enclosing_names_outside.get(iv, 0):
            return None
        if not any(isinstance(n, ast.Name) and n.id == iv for n in body_nodes):
            return None     # counted repetition, not an index loop
        bound_names = {n.id for n in ast.walk(hi) if isinstance(n, ast.Name)} | \
                      {n.id for n in ast.walk(lo) if isinstance(n, ast.Name)}
        for n in body_nodes:
            if isinstance(n, ast.Name) and n.id in bound_names and isinstance(n.ctx, (ast.Store, ast.Del)):
                return None
            if isinstance(n, ast.Call) and isinstance(n.func, ast.Attribute) and n.func.attr in _MUTATORS \
                    and isinstance(n.func.value, ast.Name) and n.func.value.id in bound_names:
                return None
        init = ast.Assign(targets=[ast.Name(id=iv, ctx=ast.Store())], value=lo, lineno=loop.lineno)
        ast.copy_location(init, loop)
        test = ast.Compare(left=ast.Name(id=iv, ctx=ast.Load()), ops=[ast.Lt()], comparators=[hi])
        inc = ast.AugAssign(target=ast.Name(id=iv, ctx=ast.Store()), op=ast.Add(), value=step)
        last = loop.body[-1]
        ast.copy_location(inc, last)
        inc.lineno = getattr(last, 'end_lineno', last.lineno)
        w = ast.While(test=test, body=list(loop.body) + [inc], orelse=loop.orelse)
        ast.copy_location(w, loop)
        ast.copy_location(test, loop.iter)
        for x in (init, w):
            ast.fix_missing_locations(x)
        if isinstance(lo, ast.Name) and lo.id == iv:
            return [w]      # ``for i in range(i, ..)``: i already holds the start
        return [init, w]

    def outside_counts(loop):
        """occurrences of each name that could observe the loop variable after the loop:
        everything outside the loop, except (a) other for-range loops over the same variable
        (they re-initialise it) and (b), for a loop at the top level of the function body,
        occurrences in earlier top-level statements (they cannot run after the loop)"""
        inside = {id(n) for n in ast.walk(loop)}
        before = set()
        if loop in func.body:
            for st in func.body[:func.body.index(loop)]:
                before.update(id(n) for n in ast.walk(st))
        counts = {}
        for n in ast.walk(func):
            if isinstance(n, ast.Name) and id(n) not in inside and id(n) not in before:
                counts[n.id] = counts.get(n.id, 0) + 1
        for n in ast.walk(func):
            if isinstance(n, ast.For) and n is not loop and isinstance(n.target, ast.Name):
                inner = sum(1 for x in ast.walk(n) if isinstance(x, ast.Name) and x.id == n.target.id
                            and id(x) not in inside and id(x) not in before)
                if counts.get(n.target.id):
                    counts[n.target.id] -= inner
        return counts

    def fix(body):
        out = []
        for st in body:
            if isinstance(st, _FUNC):
                out.append(st)
                continue
            for f in ('body', 'orelse', 'finalbody'):
                v = getattr(st, f, None)
                if isinstance(v, list) and v and isinstance(v[0], ast.stmt):
                    setattr(st, f, fix(v))
            for h in getattr(st, 'handlers', ()):
                h.body = fix(h.body)
            rep = convert(st, outside_counts(st)) if isinstance(st, ast.For) else None
            if rep:
                out.extend(rep)
            else:
                out.append(st)
        return out

    func.body = fix(func.body)


def coalesce_copies(func):
    """``a = b`` at the top level of a function body, with every other occurrence of the
    local b in earlier top-level statements and every occurrence of a in later ones, and
    neither captured by a nested function: b is just an earlier name of a; rename b to a
    and drop the copy."""
    params = set()
    a_ = func.args
    for x in a_.posonlyargs + a_.args + a_.kwonlyargs + [a_.vararg, a_.kwarg]:
        if x is not None:
            params.add(x.arg)
    changed = True
    while changed:
        changed = False
        captured = set()
        for n in ast.walk(func):
            if n is not func and isinstance(n, _FUNC):
                for x in ast.walk(n):
                    if isinstance(x, ast.Name):
                        captured.add(x.id)
        where = {}
        for idx, st in enumerate(func.body):
            for n in ast.walk(st):
                if isinstance(n, ast.Name):
                    where.setdefault(n.id, []).append(idx)
                elif isinstance(n, ast.ExceptHandler) and n.name:
                    where.setdefault(n.name, []).append(idx)
                elif isinstance(n, (ast.Global, ast.Nonlocal)):
                    for nm in n.names:
                        captured.add(nm)
        for idx, st in enumerate(func.body):
            if not (isinstance(st, ast.Assign) and len(st.targets) == 1 and isinstance(st.targets[0], ast.Name)
                    and isinstance(st.value, ast.Name)):
                continue
            a, b = st.targets[0].id, st.value.id
            if a == b or a in captured or b in captured or a in params or b in params:
                continue
            wa = [i for i in where.get(a, ()) if i != idx]
            wb = [i for i in where.get(b, ()) if i != idx]
            if where.get(a, []).count(idx) != 1 or where.get(b, []).count(idx) != 1:
                continue
            if not wb or any(i > idx for i in wb) or any(i < idx for i in wa):
                continue
            # b must be a local (stored somewhere before)
            stored = any(isinstance(n, ast.Name) and n.id == b and isinstance(n.ctx, ast.Store)
                         for s2 in func.body[:idx] for n in ast.walk(s2))
            if not stored:
                continue
            for s2 in func.body[:idx]:
                for n in ast.walk(s2):
                    if isinstance(n, ast.Name) and n.id == b:
                        n.id = a
            del func.body[idx]
            changed = True
            break


def coalesce_block_copies(func):
    """``a = b`` as a statement of any block, where every occurrence of the local b lies in the
    earlier statements of that same block, a does not occur in them, they contain no
    break / continue, no enclosing ``try`` of the block reads a in a handler or finally clause,
    and neither name is a parameter or captured by a nested function: b is the working name of
    a; rename b to a and drop the copy (what inlining a helper that builds and returns a value
    leaves behind)."""
    params = set()
    a_ = func.args
    for x in a_.posonlyargs + a_.args + a_.kwonlyargs + [a_.vararg, a_.kwarg]:
        if x is not None:
            params.add(x.arg)

    def occurrences(node, name):
        k = 0
        for n in ast.walk(node):
            if isinstance(n, ast.Name) and n.id == name:
                k += 1
            elif isinstance(n, ast.ExceptHandler) and n.name == name:
                k += 1
        return k

    def blocks_of(st):
        for f in ('body', 'orelse', 'finalbody'):
            v = getattr(st, f, None)
            if isinstance(v, list) and v and isinstance(v[0], ast.stmt):
                yield f, v
        for h in getattr(st, 'handlers', ()):
            yield 'handler', h.body

    def visit(block, guards):
        """guards: names read by handlers / finally clauses of the enclosing try statements"""
        idx = 0
        while idx < len(block):
            st = block[idx]
            if isinstance(st, _FUNC) or isinstance(st, ast.ClassDef):
                idx += 1
                continue
            if isinstance(st, ast.Assign) and len(st.targets) == 1 and isinstance(st.targets[0], ast.Name) \
                    and isinstance(st.value, ast.Name) and idx > 0:
                a, b = st.targets[0].id, st.value.id
                captured = set()
                for n in ast.walk(func):
                    if n is not func and isinstance(n, _FUNC):
                        captured.update(x.id for x in ast.walk(n) if isinstance(x, ast.Name))
                    elif isinstance(n, (ast.Global, ast.Nonlocal)):
                        captured.update(n.names)
                before = block[:idx]
                inb = sum(occurrences(s2, b) for s2 in before)
                # ``b = a`` ... ``a = b``: b is a working copy of a that is written back; a may be
                # mentioned up to that first copy, not between the two
                first_b = next((k for k, s2 in enumerate(before) if occurrences(s2, b)), None)
                if first_b is not None and isinstance(before[first_b], ast.Assign) and len(before[first_b].targets) == 1 \
                        and isinstance(before[first_b].targets[0], ast.Name) and before[first_b].targets[0].id == b \
                        and isinstance(before[first_b].value, ast.Name) and before[first_b].value.id == a \
                        and a not in params and '__' in b.strip('_'):
                    before = before[first_b + 1:]
                    inb = sum(occurrences(s2, b) for s2 in before) + 1
                    copy_in = first_b
                else:
                    copy_in = None
                if a != b and not ({a, b} & (params | captured)) and a not in guards \
                        and inb >= 1 and inb == occurrences(func, b) - 1 \
                        and not any(occurrences(s2, a) for s2 in before) \
                        and not any(isinstance(n, (ast.Break, ast.Continue)) for s2 in before for n in ast.walk(s2)) \
                        and any(isinstance(n, ast.Name) and n.id == b and isinstance(n.ctx, ast.Store) for s2 in before for n in ast.walk(s2)):
                    for s2 in before:
                        for n in ast.walk(s2):
                            if isinstance(n, ast.Name) and n.id == b:
                                n.id = a
                            elif isinstance(n, ast.ExceptHandler) and n.name == b:
                                n.name = a
                    del block[idx]
                    if copy_in is not None:
                        del block[copy_in]       # ``b = a`` has become ``a = a``
                        idx -= 1
                    continue
            for kind, b2 in blocks_of(st):
                g2 = guards
                if isinstance(st, ast.Try) and kind == 'body':
                    g2 = set(guards)
                    for h in st.handlers:
                        g2.update(n.id for s2 in h.body for n in ast.walk(s2) if isinstance(n, ast.Name))
                    g2.update(n.id for s2 in st.finalbody for n in ast.walk(s2) if isinstance(n, ast.Name))
                visit(b2, g2)
            idx += 1

    visit(func.body, set())


def _table_elem_ok(e, multi):
    """an element of a literal table that may be re-evaluated where it is used: names, dotted
    names, constants (always); displays / lambdas of those when used at most once"""
    if isinstance(e, (ast.Name, ast.Constant)):
        return True
    if isinstance(e, ast.Attribute):
        return _table_elem_ok(e.value, multi)
    if multi:
        return False
    if isinstance(e, (ast.Tuple, ast.List, ast.Set)):
        return all(_table_elem_ok(x, False) for x in e.elts)
    if isinstance(e, ast.Dict):
        return all(k is not None and _table_elem_ok(k, False) for k in e.keys) and all(_table_elem_ok(v, False) for v in e.values)
    if isinstance(e, ast.Lambda):
        return True
    return False


def unroll_literal_table_loops(func):
    """``for a, b in ((x1, y1), (x2, y2), ...): body`` over a literal display (written in place or
    bound to a local just before and used for nothing else), without break / continue / else /
    return and without rebinding the loop variables: the body once per row, the row's elements
    substituted for the variables.  Table-driven code is compared in its unrolled form; the
    elements must be re-evaluable (names, constants, or displays used at most once)."""
    def blocks_of(st):
        for f in ('body', 'orelse', 'finalbody'):
            v = getattr(st, f, None)
            if isinstance(v, list) and v and isinstance(v[0], ast.stmt):
                yield v
        for h in getattr(st, 'handlers', ()):
            yield h.body

    def try_unroll(block, i):
        st = block[i]
        if not isinstance(st, ast.For) or st.orelse:
            return False
        it = st.iter
        drop_prev = False
        if isinstance(it, ast.Name) and i > 0:
            prev = block[i - 1]
            if isinstance(prev, ast.Assign) and len(prev.targets) == 1 and isinstance(prev.targets[0], ast.Name) \
                    and prev.targets[0].id == it.id and isinstance(prev.value, (ast.Tuple, ast.List)) \
                    and sum(1 for n in ast.walk(func) if isinstance(n, ast.Name) and n.id == it.id) == 2:
                it = prev.value
                drop_prev = True
        if not isinstance(it, (ast.Tuple, ast.List)) or not (1 <= len(it.elts) <= 40):
            return False
        if isinstance(st.target, ast.Name):
            tvars = [st.target.id]
            rows = [[e] for e in it.elts]
        elif isinstance(st.target, ast.Tuple) and all(isinstance(x, ast.Name) for x in st.target.elts):
            tvars = [x.id for x in st.target.elts]
            rows = []
            for e in it.elts:
                if not (isinstance(e, (ast.Tuple, ast.List)) and len(e.elts) == len(tvars)):
                    return False
                rows.append(list(e.elts))
        else:
            return False
        rebound = set()
        for s2 in st.body:
            for n in ast.walk(s2):
                if isinstance(n, (ast.Break, ast.Continue, ast.Return, ast.Yield, ast.YieldFrom, ast.GeneratorExp) + _FUNC):
                    return False      # (closures and generator expressions read the loop variable late)
                if isinstance(n, ast.Name) and n.id in tvars and not isinstance(n.ctx, ast.Load):
                    rebound.add(n.id)
        if rebound:
            # a loop variable the body rebinds: each row gets its own variable, initialised from
            # the row's element (which must be a plain name the body leaves alone, or a constant)
            stored_in_body = {n.id for s2 in st.body for n in ast.walk(s2) if isinstance(n, ast.Name) and not isinstance(n.ctx, ast.Load)}
            for row in rows:
                for e in row:
                    if not (isinstance(e, ast.Constant) or (isinstance(e, ast.Name) and e.id not in stored_in_body)):
                        return False
        # the loop variables are not read after the loop
        uses_in = {v: sum(1 for s2 in st.body for n in ast.walk(s2) if isinstance(n, ast.Name) and n.id == v) for v in tvars}
        for v in tvars:
            total = sum(1 for n in ast.walk(func) if isinstance(n, ast.Name) and n.id == v)
            if total != uses_in[v] + 1:
                return False
        for row in rows:
            for v, e in zip(tvars, row):
                if v not in rebound and not _table_elem_ok(e, uses_in[v] > 1):
                    return False
        out = []
        for k, row in enumerate(rows):
            env = {v: e for v, e in zip(tvars, row) if v not in rebound}
            fresh = {v: '%s__it%d' % (v, k) for v in tvars if v in rebound}
            for v, e in zip(tvars, row):
                if v in rebound:
                    out.append(ast.fix_missing_locations(ast.copy_location(
                        ast.Assign(targets=[ast.Name(id=fresh[v], ctx=ast.Store())], value=copy.deepcopy(e), lineno=st.lineno), st)))

            class Put(ast.NodeTransformer):
                def visit_Name(self, node):
                    if node.id in env and isinstance(node.ctx, ast.Load):
                        return ast.copy_location(copy.deepcopy(env[node.id]), node)
                    if node.id in fresh:
                        node.id = fresh[node.id]
                    return node
            for s2 in st.body:
                out.append(_KwSplat().visit(Put().visit(copy.deepcopy(s2))))
        lo = i - 1 if drop_prev else i
        block[lo:i + 1] = out
        return True

    def visit(block):
        i = 0
        while i < len(block):
            st = block[i]
            if isinstance(st, _FUNC):
                i += 1
                continue
            if try_unroll(block, i):
                continue
            for b in blocks_of(st):
                visit(b)
            i += 1
    visit(func.body)


class _KwSplat(ast.NodeTransformer):
    """``f(**{'k': v})`` with constant identifier keys is ``f(k=v)``"""
    def visit_Call(self, node):
        self.generic_visit(node)
        kws = []
        for k in node.keywords:
            if k.arg is None and isinstance(k.value, ast.Dict) and all(
                    isinstance(x, ast.Constant) and isinstance(x.value, str) and x.value.isidentifier() for x in k.value.keys):
                for kk, vv in zip(k.value.keys, k.value.values):
                    kws.append(ast.copy_location(ast.keyword(arg=kk.value, value=vv), k))
            else:
                kws.append(k)
        node.keywords = kws
        return node


def coalesce_copy_in(func):
    """``b = a`` where a is dead from there on (no later occurrence in the block, in the statements
    following any enclosing block, nor -- inside a loop -- anywhere but as the target of the
    innermost enclosing ``for``) and every occurrence of the local b follows the copy in the same
    block: b is just the new name of a; rename b to a and drop the copy (what inlining a helper
    that rebinds its parameter leaves behind)."""
    params = set()
    a_ = func.args
    for x in a_.posonlyargs + a_.args + a_.kwonlyargs + [a_.vararg, a_.kwarg]:
        if x is not None:
            params.add(x.arg)
    captured = set()
    for n in ast.walk(func):
        if n is not func and isinstance(n, _FUNC):
            captured.update(x.id for x in ast.walk(n) if isinstance(x, ast.Name))
        elif isinstance(n, (ast.Global, ast.Nonlocal)):
            captured.update(n.names)

    def occ(nodes, name):
        k = 0
        for s2 in nodes:
            for n in ast.walk(s2):
                if isinstance(n, ast.Name) and n.id == name:
                    k += 1
                elif isinstance(n, ast.ExceptHandler) and n.name == name:
                    k += 1
        return k

    def blocks_of(st):
        for f in ('body', 'orelse', 'finalbody'):
            v = getattr(st, f, None)
            if isinstance(v, list) and v and isinstance(v[0], ast.stmt):
                yield f, v
        for h in getattr(st, 'handlers', ()):
            yield 'handler', h.body

    def dead_after_loop(after, a):
        """in the statements that follow the loop, a is written before it is read: the first
        statement mentioning it (which must be one of ``after`` itself, i.e. unconditional)
        rebinds it without reading it"""
        for s2 in after:
            if occ([s2], a) == 0:
                continue
            if isinstance(s2, ast.For) and any(isinstance(n, ast.Name) and n.id == a for n in ast.walk(s2.target)) \
                    and occ([s2.iter], a) == 0:
                return True
            if isinstance(s2, ast.Assign) and len(s2.targets) == 1 and isinstance(s2.targets[0], ast.Name) \
                    and s2.targets[0].id == a and occ([s2.value], a) == 0:
                return True
            return False
        return True

    def visit(block, later, loop, after=(), outermost=None):
        """later: statements that run after this block (outer continuations); loop: innermost For/While"""
        idx = 0
        while idx < len(block):
            st = block[idx]
            if isinstance(st, _FUNC):
                idx += 1
                continue
            if isinstance(st, ast.Assign) and len(st.targets) == 1 and isinstance(st.targets[0], ast.Name) \
                    and isinstance(st.value, ast.Name):
                b, a = st.targets[0].id, st.value.id
                rest = block[idx + 1:]
                # only working copies the inliner introduced (``<param>__<helper>..``): a copy written
                # by the author is left alone, rules may name it
                ok = a != b and b not in params and b not in captured and a not in captured \
                    and '__' in b.strip('_') and not b.startswith('__')
                ok = ok and occ(rest, b) >= 1 and occ([func], b) == occ(rest, b) + 1
                ok = ok and occ(rest, a) == 0 and occ(later, a) == 0
                if ok and loop is not None:
                    # a must be fresh in every iteration: the loop's own target, used nowhere else in the loop
                    tgt = isinstance(loop, ast.For) and any(isinstance(n, ast.Name) and n.id == a for n in ast.walk(loop.target)) \
                        and occ([loop.iter], a) == 0
                    # inside the loop: the target and this copy only; after it: rebound before read
                    ok = tgt and occ([outermost or loop], a) == 2 and dead_after_loop(list(after), a)
                if ok:
                    for s2 in rest:
                        for n in ast.walk(s2):
                            if isinstance(n, ast.Name) and n.id == b:
                                n.id = a
                            elif isinstance(n, ast.ExceptHandler) and n.name == b:
                                n.name = a
                    del block[idx]
                    continue
            for kind, b2 in blocks_of(st):
                if isinstance(st, (ast.For, ast.While)) and kind == 'body':
                    visit(b2, [], st, (block[idx + 1:] + list(later) + list(after)) if loop is None else after, outermost or st)
                else:
                    visit(b2, block[idx + 1:] + later, loop, after, outermost)
            idx += 1

    visit(func.body, [], None)


def break_to_return(func):
    """a loop without ``else`` immediately followed by ``return E`` (E a name or a constant): a
    ``break`` of that loop continues at the return, so it is ``return E`` itself (single-exit
    and early-return search loops are the same loop)"""
    def blocks_of(st):
        for f in ('body', 'orelse', 'finalbody'):
            v = getattr(st, f, None)
            if isinstance(v, list) and v and isinstance(v[0], ast.stmt):
                yield v
        for h in getattr(st, 'handlers', ()):
            yield h.body

    def replace_breaks(body, ret):
        for k, s2 in enumerate(body):
            if isinstance(s2, ast.Break):
                body[k] = ast.copy_location(ast.Return(value=copy.deepcopy(ret.value)), s2)
            elif isinstance(s2, (ast.For, ast.While) + _FUNC):
                if isinstance(s2, (ast.For, ast.While)):
                    replace_breaks(s2.orelse, ret)      # a break in the else clause belongs to the outer loop
                continue
            else:
                for b in blocks_of(s2):
                    replace_breaks(b, ret)

    def in_finally(body):
        return any(isinstance(n, ast.Try) and n.finalbody and any(isinstance(x, ast.Break) for y in n.body + n.orelse for x in ast.walk(y))
                   for s2 in body for n in ast.walk(s2))

    def visit(block):
        for i, st in enumerate(block):
            if isinstance(st, _FUNC):
                continue
            if isinstance(st, (ast.For, ast.While)) and not st.orelse and i + 1 < len(block) and isinstance(block[i + 1], ast.Return) \
                    and (block[i + 1].value is None or isinstance(block[i + 1].value, (ast.Name, ast.Constant))) \
                    and not in_finally(st.body):
                replace_breaks(st.body, block[i + 1])
            for b in blocks_of(st):
                visit(b)
    visit(func.body)


def append_then_unpack(func):
    """``xs = []`` ... ``xs.append(e1)`` ... ``xs.append(en)`` ... ``p1, .., pn = xs`` -- all
    statements of one block, xs mentioned nowhere else: the list is only a parcel for n values;
    ``t_k = e_k`` at the place of each append and ``p_k = t_k`` at the unpacking"""
    def blocks_of(st):
        for f in ('body', 'orelse', 'finalbody'):
            v = getattr(st, f, None)
            if isinstance(v, list) and v and isinstance(v[0], ast.stmt):
                yield v
        for h in getattr(st, 'handlers', ()):
            yield h.body

    def visit(block):
        for i, st in enumerate(block):
            if isinstance(st, _FUNC):
                continue
            if isinstance(st, ast.Assign) and len(st.targets) == 1 and isinstance(st.targets[0], ast.Name) \
                    and isinstance(st.value, ast.List) and not st.value.elts:
                x = st.targets[0].id
                total = sum(1 for n in ast.walk(func) if isinstance(n, ast.Name) and n.id == x)
                apps, unpack = [], None
                for j in range(i + 1, len(block)):
                    s2 = block[j]
                    if isinstance(s2, ast.Expr) and isinstance(s2.value, ast.Call) and isinstance(s2.value.func, ast.Attribute) \
                            and s2.value.func.attr == 'append' and isinstance(s2.value.func.value, ast.Name) and s2.value.func.value.id == x \
                            and len(s2.value.args) == 1 and not s2.value.keywords \
                            and not any(isinstance(n, ast.Name) and n.id == x for n in ast.walk(s2.value.args[0])):
                        apps.append(j)
                    elif isinstance(s2, ast.Assign) and len(s2.targets) == 1 and isinstance(s2.targets[0], ast.Tuple) \
                            and isinstance(s2.value, ast.Name) and s2.value.id == x \
                            and all(isinstance(t, ast.Name) for t in s2.targets[0].elts):
                        unpack = j
                        break
                    elif any(isinstance(n, ast.Name) and n.id == x for n in ast.walk(s2)):
                        break
                if unpack is not None and apps and len(apps) == len(block[unpack].targets[0].elts) and total == len(apps) + 2:
                    tmps = ['%s__v%d' % (x, k) for k in range(len(apps))]
                    for k, j in enumerate(apps):
                        block[j] = ast.fix_missing_locations(ast.copy_location(
                            ast.Assign(targets=[ast.Name(id=tmps[k], ctx=ast.Store())], value=block[j].value.args[0], lineno=block[j].lineno), block[j]))
                    tg = block[unpack].targets[0].elts
                    new = [ast.fix_missing_locations(ast.copy_location(
                        ast.Assign(targets=[ast.Name(id=t.id, ctx=ast.Store())], value=ast.Name(id=tmps[k], ctx=ast.Load()), lineno=block[unpack].lineno),
                        block[unpack])) for k, t in enumerate(tg)]
                    block[unpack:unpack + 1] = new
                    del block[i]
                    return visit(block)
            for b in blocks_of(st):
                visit(b)
    visit(func.body)


def specialise_bound_tail(func):
    """an if / elif / else chain whose branches only *bind selector variables* (or leave),
    followed by statements that use them -- table-driven dispatch::

        if op == '[': f, excs = operator.delitem, (KeyError, IndexError)
        elif op == '.': f, excs = delattr, AttributeError
        else: return
        try: f(dest, arg)
        except excs as e: ...

    is the same as the chain with the tail written out in every branch, the bound names
    replaced by what the branch binds them to.  Only when there is an explicit else, every
    binding is a plain local, simple values (names, dotted names, constants, tuples of them)
    are substituted and other values (calls) stay as statements, the tail (at most 6
    statements, no loop) does not rebind the selectors and they are used nowhere else."""
    def simple(e):
        if isinstance(e, (ast.Name, ast.Constant)):
            return True
        if isinstance(e, ast.Attribute):
            return simple(e.value)
        if isinstance(e, ast.Tuple):
            return all(simple(x) for x in e.elts)
        return False

    def terminates(body):
        return bool(body) and isinstance(body[-1], (ast.Return, ast.Raise, ast.Continue, ast.Break))

    def blocks_of(st):
        for f in ('body', 'orelse', 'finalbody'):
            v = getattr(st, f, None)
            if isinstance(v, list) and v and isinstance(v[0], ast.stmt):
                yield v
        for h in getattr(st, 'handlers', ()):
            yield h.body

    def try_at(block, i):
        st = block[i]
        tail = block[i + 1:]
        if not isinstance(st, ast.If) or not tail or len(tail) > 6:
            return False
        if any(isinstance(n, (ast.For, ast.While)) for s2 in tail for n in ast.walk(s2)):
            return False
        branches = []
        cur = st
        while True:
            branches.append(cur.body)
            if len(cur.orelse) == 1 and isinstance(cur.orelse[0], ast.If):
                cur = cur.orelse[0]
                continue
            if not cur.orelse:
                return False
            branches.append(cur.orelse)
            break
        binding = [b for b in branches if not terminates(b)]
        if len(binding) < 2:
            return False
        # a table row binds several things (what to apply *and* with which parameters); one
        # conditionally chosen value is just a conditional value
        if any(len(b) < 2 for b in binding):
            return False
        bound = set()
        for b in binding:
            for s2 in b:
                if not (isinstance(s2, ast.Assign) and len(s2.targets) == 1 and isinstance(s2.targets[0], ast.Name)):
                    return False
                bound.add(s2.targets[0].id)
        for b in branches:
            if terminates(b) and any(isinstance(n, ast.Name) and n.id in bound for s2 in b for n in ast.walk(s2)):
                return False
        # every binding branch binds every selector; the selectors live in the tail only
        for b in binding:
            if {s2.targets[0].id for s2 in b} != bound:
                return False
        def occ(nodes):
            return sum(1 for s2 in nodes for n in ast.walk(s2) if isinstance(n, ast.Name) and n.id in bound)
        in_chain = occ([st])
        in_tail = occ(tail)
        if in_tail == 0 or occ([func]) != in_chain + in_tail:
            return False
        if any(isinstance(n, ast.Name) and n.id in bound and not isinstance(n.ctx, ast.Load) for s2 in tail for n in ast.walk(s2)):
            return False
        if any(isinstance(n, _FUNC + (ast.GeneratorExp,)) for s2 in tail for n in ast.walk(s2)):
            return False
        if any(isinstance(n, ast.Name) and n.id in bound for b in binding for s2 in b for n in ast.walk(s2.value)):
            return False
        # the signature of table-driven dispatch: a selector is *applied* -- called, or named as
        # the class of an except clause (a variable that merely carries a value is left alone)
        applied = any((isinstance(n, ast.Call) and isinstance(n.func, ast.Name) and n.func.id in bound) or
                      (isinstance(n, ast.ExceptHandler) and isinstance(n.type, ast.Name) and n.type.id in bound)
                      for s2 in tail for n in ast.walk(s2))
        if not applied:
            return False
        for b in binding:
            env = {}
            keep = []
            for s2 in b:
                if simple(s2.value):
                    env[s2.targets[0].id] = s2.value
                else:
                    keep.append(s2)

            class Put(ast.NodeTransformer):
                def visit_Name(self, node):
                    if node.id in env and isinstance(node.ctx, ast.Load):
                        return ast.copy_location(copy.deepcopy(env[node.id]), node)
                    return node
            new_tail = [ast.fix_missing_locations(Put().visit(copy.deepcopy(t))) for t in tail]
            b[:] = keep + new_tail
        del block[i + 1:]
        return True

    def visit(block):
        i = 0
        while i < len(block):
            st = block[i]
            if isinstance(st, _FUNC):
                i += 1
                continue
            if try_at(block, i):
                pass
            for b in blocks_of(block[i]):
                visit(b)
            i += 1
    visit(func.body)


class _BetaReduce(ast.NodeTransformer):
    """``(lambda a, b: E)(x, y)`` with plain positional parameters and name / constant arguments
    is E with the arguments substituted"""
    def visit_Call(self, node):
        self.generic_visit(node)
        f = node.func
        if isinstance(f, ast.Lambda) and not node.keywords and not f.args.vararg and not f.args.kwarg and not f.args.kwonlyargs \
                and not f.args.defaults and len(f.args.posonlyargs + f.args.args) == len(node.args) \
                and all(isinstance(a, (ast.Name, ast.Constant)) for a in node.args) \
                and not any(isinstance(n, (ast.Lambda, ast.ListComp, ast.SetComp, ast.DictComp, ast.GeneratorExp, ast.NamedExpr))
                            for n in ast.walk(f.body)):
            env = {p_.arg: a for p_, a in zip(f.args.posonlyargs + f.args.args, node.args)}

            class Put(ast.NodeTransformer):
                def visit_Name(self, n):
                    if n.id in env and isinstance(n.ctx, ast.Load):
                        return ast.copy_location(copy.deepcopy(env[n.id]), n)
                    return n
            return ast.copy_location(Put().visit(copy.deepcopy(f.body)), node)
        return node


def expand_constant_dispatch(tree):
    """a module-level dict display with constant keys that is never written afterwards is a
    dispatch table; ``f = TABLE.get(k)`` followed by ``if f is not None: B`` (no else) is the
    chain ``if k == key1: B[f := value1] elif k == key2: ...`` -- an unknown key does nothing
    in both.  Values must be names, dotted names or lambdas; lambdas applied to names are
    beta-reduced."""
    if not isinstance(tree, ast.Module):
        return tree
    tables = {}
    for st in tree.body:
        if isinstance(st, ast.Assign) and len(st.targets) == 1 and isinstance(st.targets[0], ast.Name) and isinstance(st.value, ast.Dict) \
                and st.value.keys and all(isinstance(k, ast.Constant) and isinstance(k.value, (str, int)) for k in st.value.keys) \
                and all(isinstance(v, (ast.Name, ast.Attribute, ast.Lambda)) for v in st.value.values) and len(st.value.keys) <= 40:
            tables[st.targets[0].id] = st.value
    if not tables:
        return tree
    # never rebound, never written, only ever used as ``TABLE.get(..)``
    uses = {}
    for n in ast.walk(tree):
        if isinstance(n, ast.Name) and n.id in tables:
            uses[n.id] = uses.get(n.id, 0) + 1
    gets = {}
    for n in ast.walk(tree):
        if isinstance(n, ast.Call) and isinstance(n.func, ast.Attribute) and n.func.attr == 'get' and isinstance(n.func.value, ast.Name) \
                and n.func.value.id in tables and len(n.args) == 1 and not n.keywords:
            gets[n.func.value.id] = gets.get(n.func.value.id, 0) + 1
    ok_tables = {t for t in tables if uses.get(t, 0) == gets.get(t, 0) + 1 and gets.get(t, 0) >= 1}
    # second form: ``if k in TABLE: ... TABLE[k] ...`` -- the table is only ever tested for
    # membership and indexed
    member = {}
    for n in ast.walk(tree):
        if isinstance(n, ast.Compare) and len(n.ops) == 1 and isinstance(n.ops[0], ast.In) and isinstance(n.comparators[0], ast.Name) \
                and n.comparators[0].id in tables and isinstance(n.left, ast.Name):
            member[n.comparators[0].id] = member.get(n.comparators[0].id, 0) + 1
        elif isinstance(n, ast.Subscript) and isinstance(n.value, ast.Name) and n.value.id in tables and isinstance(n.ctx, ast.Load) \
                and isinstance(n.slice, ast.Name):
            member[n.value.id] = member.get(n.value.id, 0) + 1
    in_tables = {t for t in tables if t not in ok_tables and uses.get(t, 0) == member.get(t, 0) + 1 and member.get(t, 0) >= 2}
    if not ok_tables and not in_tables:
        return tree

    def expand_membership(st):
        # ``if k in TABLE: B [else: O]``  ->  ``if k == key1: B[TABLE[k] := v1] elif ... else: O``
        t = st.test
        if not (isinstance(t, ast.Compare) and len(t.ops) == 1 and isinstance(t.ops[0], ast.In) and isinstance(t.left, ast.Name)
                and isinstance(t.comparators[0], ast.Name) and t.comparators[0].id in in_tables):
            return None
        key, tname = t.left.id, t.comparators[0].id
        table = tables[tname]
        for s2 in st.body:
            for n in ast.walk(s2):
                if isinstance(n, ast.Name) and n.id == key and not isinstance(n.ctx, ast.Load):
                    return None
                if isinstance(n, ast.Name) and n.id == tname:
                    par_ok = any(isinstance(m, ast.Subscript) and m.value is n and is_name_node(m.slice, key) for m in ast.walk(s2))
                    if not par_ok:
                        return None
        chain = list(st.orelse)
        for k, v in reversed(list(zip(table.keys, table.values))):
            class Put(ast.NodeTransformer):
                def visit_Subscript(self, n):
                    if isinstance(n.value, ast.Name) and n.value.id == tname and is_name_node(n.slice, key):
                        return ast.copy_location(copy.deepcopy(v), n)
                    self.generic_visit(n)
                    return n
            body = [_BetaReduce().visit(Put().visit(copy.deepcopy(s2))) for s2 in st.body]
            test = ast.Compare(left=ast.Name(id=key, ctx=ast.Load()), ops=[ast.Eq()], comparators=[copy.deepcopy(k)])
            node = ast.If(test=test, body=body, orelse=chain)
            ast.copy_location(node, st)
            chain = [node]
        ast.fix_missing_locations(chain[0])
        return chain[0]

    def is_name_node(e, name):
        return isinstance(e, ast.Name) and e.id == name

    def blocks_of(st):
        for f in ('body', 'orelse', 'finalbody'):
            v = getattr(st, f, None)
            if isinstance(v, list) and v and isinstance(v[0], ast.stmt):
                yield v
        for h in getattr(st, 'handlers', ()):
            yield h.body

    def visit(block, func):
        i = 0
        while i < len(block):
            st = block[i]
            nxt = block[i + 1] if i + 1 < len(block) else None
            if isinstance(st, ast.Assign) and len(st.targets) == 1 and isinstance(st.targets[0], ast.Name) \
                    and isinstance(st.value, ast.Call) and isinstance(st.value.func, ast.Attribute) and st.value.func.attr == 'get' \
                    and isinstance(st.value.func.value, ast.Name) and st.value.func.value.id in ok_tables \
                    and isinstance(st.value.args[0], ast.Name) and isinstance(nxt, ast.If) and not nxt.orelse \
                    and isinstance(nxt.test, ast.Compare) and len(nxt.test.ops) == 1 and isinstance(nxt.test.ops[0], ast.IsNot) \
                    and isinstance(nxt.test.left, ast.Name) and nxt.test.left.id == st.targets[0].id \
                    and isinstance(nxt.test.comparators[0], ast.Constant) and nxt.test.comparators[0].value is None:
                f, key, table = st.targets[0].id, st.value.args[0], tables[st.value.func.value.id]
                total = sum(1 for n in ast.walk(func) if isinstance(n, ast.Name) and n.id == f) if func is not None else 0
                inside = sum(1 for s2 in nxt.body for n in ast.walk(s2) if isinstance(n, ast.Name) and n.id == f)
                stores = any(isinstance(n, ast.Name) and n.id in (f, key.id) and not isinstance(n.ctx, ast.Load) for s2 in nxt.body for n in ast.walk(s2))
                if func is not None and total == inside + 2 and not stores:
                    chain = None
                    for k, v in reversed(list(zip(table.keys, table.values))):
                        class Put(ast.NodeTransformer):
                            def visit_Name(self, n):
                                if n.id == f and isinstance(n.ctx, ast.Load):
                                    return ast.copy_location(copy.deepcopy(v), n)
                                return n
                        body = [_BetaReduce().visit(Put().visit(copy.deepcopy(s2))) for s2 in nxt.body]
                        test = ast.Compare(left=copy.deepcopy(key), ops=[ast.Eq()], comparators=[copy.deepcopy(k)])
                        chain = ast.If(test=test, body=body, orelse=[chain] if chain is not None else [])
                        ast.copy_location(chain, nxt)
                    ast.fix_missing_locations(chain)
                    block[i:i + 2] = [chain]
                    continue
            if isinstance(st, ast.If) and in_tables and func is not None:
                rep = expand_membership(st)
                if rep is not None:
                    block[i] = rep
                    continue
            for b in blocks_of(st):
                visit(b, st if isinstance(st, (ast.FunctionDef, ast.AsyncFunctionDef)) else func)
            i += 1
    visit(tree.body, None)
    return tree


def inline_adjacent_temps(func, log=None):
    """``t = e`` immediately followed by a statement that holds the only other occurrence of
    the local t (a load, evaluated once: not under a lambda, comprehension or loop header):
    substitute e for t and drop the assignment (undoes extract-variable)."""
    params = set()
    a_ = func.args
    for x in a_.posonlyargs + a_.args + a_.kwonlyargs + [a_.vararg, a_.kwarg]:
        if x is not None:
            params.add(x.arg)
    special = set()
    for n in ast.walk(func):
        if isinstance(n, (ast.Global, ast.Nonlocal)):
            special.update(n.names)

    def counts():
        c = {}
        for n in ast.walk(func):
            if isinstance(n, ast.Name):
                c[n.id] = c.get(n.id, 0) + 1
            elif isinstance(n, ast.ExceptHandler) and n.name:
                c[n.name] = c.get(n.name, 0) + 2
        return c

    def single_load(st, name, rebind=False):
        """the one Load of name inside st evaluated exactly once with st, else None
        (rebind: st is ``name = <expr>``; its own target does not count)"""
        if rebind:
            roots = [st.value]
        elif isinstance(st, (ast.Assign, ast.AugAssign, ast.AnnAssign, ast.Expr, ast.Return, ast.Raise, ast.Assert)):
            roots = [st]
        elif isinstance(st, ast.If):
            roots = [st.test]
        elif isinstance(st, ast.For):
            roots = [st.iter]
        else:
            return None
        hits = []

        def walk(n, once):
            if isinstance(n, ast.Name) and n.id == name:
                hits.append((n, once and isinstance(n.ctx, ast.Load)))
                return
            if isinstance(n, (ast.Lambda, ast.ListComp, ast.SetComp, ast.DictComp, ast.GeneratorExp) + _FUNC):
                once = False
            if isinstance(n, ast.BoolOp):
                walk(n.values[0], once)
                for v in n.values[1:]:
                    walk(v, False)          # evaluated only when the earlier operands allow
                return
            if isinstance(n, ast.IfExp):
                walk(n.test, once)
                walk(n.body, False)
                walk(n.orelse, False)
                return
            for c in ast.iter_child_nodes(n):
                walk(c, once)
        for r in roots:
            walk(r, True)
        if len(hits) == 1 and hits[0][1]:
            return hits[0][0]
        return None

    def _eval_order(n):
        """sub-expressions of a statement/expression in the order their evaluation completes"""
        if isinstance(n, (ast.Assign, ast.AnnAssign)):
            if n.value is not None:
                yield from _eval_order(n.value)
            for t in (n.targets if isinstance(n, ast.Assign) else [n.target]):
                yield from _eval_order(t)
            return
        if isinstance(n, ast.AugAssign):
            yield from _eval_order(n.target)
            yield from _eval_order(n.value)
            return
        if isinstance(n, ast.Dict):
            for k, v in zip(n.keys, n.values):
                if k is not None:
                    yield from _eval_order(k)
                yield from _eval_order(v)
            yield n
            return
        if isinstance(n, (ast.Lambda,) + _FUNC):
            yield n
            return
        for c in ast.iter_child_nodes(n):
            if isinstance(c, (ast.expr_context, ast.operator, ast.unaryop, ast.cmpop, ast.boolop)):
                continue
            yield from _eval_order(c)
        if isinstance(n, ast.expr):
            yield n

    def order_safe(value, nxt, use, rebind):
        """substituting ``value`` at ``use`` keeps the evaluation order: either value makes no
        call, or nothing but plain names, constants and attribute lookups on them is evaluated in nxt before the use"""
        if not any(isinstance(x, (ast.Call, ast.Await, ast.Yield, ast.YieldFrom)) for x in ast.walk(value)):
            return True
        root = nxt.value if rebind else (nxt.test if isinstance(nxt, ast.If) else nxt.iter if isinstance(nxt, ast.For) else nxt)
        for x in _eval_order(root):
            if x is use:
                return True
            if isinstance(x, ast.Attribute) and isinstance(x.ctx, ast.Load):
                continue        # a plain attribute / method lookup (its operand was checked before it)
            if isinstance(x, (ast.Tuple, ast.List)):
                continue        # a display of already-checked elements
            if not isinstance(x, (ast.Name, ast.Constant)):
                return False
        return False

    class Put(ast.NodeTransformer):
        def __init__(self, target, value):
            self.target, self.value = target, value

        def visit_Name(self, node):
            return self.value if node is self.target else node

    cnt = [None]

    def fix(body):
        if cnt[0] is None:
            cnt[0] = counts()
        i = 0
        while i + 1 < len(body):
            st, nxt = body[i], body[i + 1]
            if isinstance(st, ast.Assign) and len(st.targets) == 1 and isinstance(st.targets[0], ast.Name):
                t = st.targets[0].id
                rebind = isinstance(nxt, ast.Assign) and len(nxt.targets) == 1 \
                    and isinstance(nxt.targets[0], ast.Name) and nxt.targets[0].id == t
                if t not in special and (rebind or (t not in params and cnt[0].get(t) == 2)):
                    # (rebind: ``t = e; t = g(t)`` -- the first value's only reader is the next statement)
                    use = single_load(nxt, t, rebind)
                    if use is not None and order_safe(st.value, nxt, use, rebind):
                        Put(use, st.value).visit(nxt)
                        cnt[0] = counts()
                        if log is not None:
                            log.append((func.name, t, st.lineno))
                        del body[i]
                        if i:
                            i -= 1
                        continue
            i += 1
        for st in body:
            if isinstance(st, _FUNC):
                continue
            for f in ('body', 'orelse', 'finalbody'):
                v = getattr(st, f, None)
                if isinstance(v, list) and v and isinstance(v[0], ast.stmt):
                    fix(v)
            for h in getattr(st, 'handlers', ()):
                fix(h.body)

    fix(func.body)


def if_assign_to_ifexp(func):
    """``if c: x = a`` / ``else: x = b``  ->  ``x = a if c else b``  (two-way choice of one
    local only; elif chains are dispatch, not choice, and are left alone)"""

    def fix(body, in_chain=False):
        out = []
        for st in body:
            if isinstance(st, _FUNC):
                out.append(st)
                continue
            if isinstance(st, ast.If):
                chain = len(st.orelse) == 1 and isinstance(st.orelse[0], ast.If)
                if not chain and not in_chain and len(st.body) == 1 and len(st.orelse) == 1:
                    a, b = st.body[0], st.orelse[0]
                    if isinstance(a, ast.Assign) and isinstance(b, ast.Assign) and len(a.targets) == 1 \
                            and len(b.targets) == 1 and isinstance(a.targets[0], ast.Name) \
                            and isinstance(b.targets[0], ast.Name) and a.targets[0].id == b.targets[0].id:
                        v = ast.IfExp(test=st.test, body=a.value, orelse=b.value)
                        ast.copy_location(v, st.test)
                        new = ast.Assign(targets=a.targets, value=v, lineno=st.lineno)
                        ast.copy_location(new, st)
                        new.end_lineno = getattr(st, 'end_lineno', None)
                        out.append(new)
                        continue
                st.body = fix(st.body)
                if chain:
                    st.orelse = fix(st.orelse, in_chain=True)
                else:
                    st.orelse = fix(st.orelse)
                out.append(st)
                continue
            for f in ('body', 'orelse', 'finalbody'):
                v = getattr(st, f, None)
                if isinstance(v, list) and v and isinstance(v[0], ast.stmt):
                    setattr(st, f, fix(v))
            for h in getattr(st, 'handlers', ()):
                h.body = fix(h.body)
            out.append(st)
        return out

    func.body = fix(func.body)


def _positive(t):
    """(positive form, True) when t is a negation (``not c``, ``is not``, ``not in``, ``!=``), else (t, False)"""
    if isinstance(t, ast.UnaryOp) and isinstance(t.op, ast.Not):
        return t.operand, True
    comp = {ast.IsNot: ast.Is, ast.NotIn: ast.In, ast.NotEq: ast.Eq}
    if isinstance(t, ast.Compare) and len(t.ops) == 1 and type(t.ops[0]) in comp:
        c = ast.Compare(left=t.left, ops=[comp[type(t.ops[0])]()], comparators=t.comparators)
        return ast.copy_location(c, t), True
    return t, False


class _PositiveElse(ast.NodeTransformer):
    """two-way ``if <negation>: A`` / ``else: B``  ->  ``if <positive>: B`` / ``else: A``;
    elif chains (dispatch) and ifs without else (guards) are left alone; the same for
    conditional expressions"""

    def visit_If(self, node, in_chain=False):
        chain = len(node.orelse) == 1 and isinstance(node.orelse[0], ast.If)
        node.test = self.visit(node.test)
        node.body = [self.visit(s) for s in node.body]
        if chain:
            node.orelse = [self.visit_If(node.orelse[0], True)]
            return node
        node.orelse = [self.visit(s) for s in node.orelse]
        if node.orelse and not in_chain:
            pos, neg = _positive(node.test)
            if neg:
                new = ast.If(test=pos, body=node.orelse, orelse=node.body)
                return ast.copy_location(new, node)
        return node

    def visit_IfExp(self, node):
        self.generic_visit(node)
        pos, neg = _positive(node.test)
        if neg:
            return ast.copy_location(ast.IfExp(test=pos, body=node.orelse, orelse=node.body), node)
        return node


def _body_terminates(body):
    if not body:
        return False
    last = body[-1]
    if isinstance(last, (ast.Return, ast.Raise, ast.Continue, ast.Break)):
        return True
    if isinstance(last, ast.If):
        return _body_terminates(last.body) and _body_terminates(last.orelse)
    return False


def no_else_after_terminating_if(func):
    """``if c: <body ending in return / raise / continue / break>`` / ``else: B``  ->  the same
    ``if`` without else, followed by B (an elif chain of terminating branches becomes a sequence of
    guard clauses; the two spellings have the same control-flow graph)"""

    def fix(body):
        out = []
        for st in body:
            if isinstance(st, _FUNC):
                out.append(st)
                continue
            for f in ('body', 'orelse', 'finalbody'):
                v = getattr(st, f, None)
                if isinstance(v, list) and v and isinstance(v[0], ast.stmt):
                    setattr(st, f, fix(v))
            for h in getattr(st, 'handlers', ()):
                h.body = fix(h.body)
            if isinstance(st, ast.If) and st.orelse and _body_terminates(st.body):
                tail = st.orelse
                st.orelse = []
                out.append(st)
                out.extend(tail)
            else:
                out.append(st)
        return out

    func.body = fix(func.body)


def split_chained_assign(func):
    """``a = b = v``  ->  ``a = v; b = v`` when v is a plain name / constant, and
    ``x = t2 = .. = v``  ->  ``x = v; t2 = x; ..`` when the first target is a local name that the
    other targets do not mention (targets are assigned left to right, v is evaluated once)"""

    def simple(v):
        return isinstance(v, (ast.Name, ast.Constant))

    def fix(body):
        out = []
        for st in body:
            if isinstance(st, _FUNC):
                out.append(st)
                continue
            if isinstance(st, ast.Assign) and len(st.targets) > 1:
                first = st.targets[0]
                rest = st.targets[1:]
                new = None
                if simple(st.value):
                    new = [ast.Assign(targets=[t], value=copy.deepcopy(st.value), lineno=st.lineno) for t in st.targets]
                elif isinstance(first, ast.Name) and not any(isinstance(n, ast.Name) and n.id == first.id
                                                             for t in rest for n in ast.walk(t)):
                    new = [ast.Assign(targets=[first], value=st.value, lineno=st.lineno)]
                    new += [ast.Assign(targets=[t], value=ast.Name(id=first.id, ctx=ast.Load()), lineno=st.lineno) for t in rest]
                if new:
                    for n in new:
                        ast.copy_location(n, st)
                        ast.fix_missing_locations(n)
                    out.extend(new)
                    continue
            for f in ('body', 'orelse', 'finalbody'):
                v = getattr(st, f, None)
                if isinstance(v, list) and v and isinstance(v[0], ast.stmt):
                    setattr(st, f, fix(v))
            for h in getattr(st, 'handlers', ()):
                h.body = fix(h.body)
            out.append(st)
        return out

    func.body = fix(func.body)


def split_tuple_assign(func):
    """``a, b = x, y`` with distinct local names on the left that do not occur on the right
    ->  ``a = x; b = y`` (left-to-right evaluation is the same)"""

    def fix(body):
        out = []
        for st in body:
            if isinstance(st, _FUNC):
                out.append(st)
                continue
            if isinstance(st, ast.Assign) and len(st.targets) == 1 and isinstance(st.targets[0], ast.Tuple) \
                    and isinstance(st.value, ast.Tuple) and len(st.targets[0].elts) == len(st.value.elts) \
                    and all(isinstance(t, ast.Name) for t in st.targets[0].elts) \
                    and not any(isinstance(v, ast.Starred) for v in st.value.elts):
                names = [t.id for t in st.targets[0].elts]
                used = {n.id for v in st.value.elts for n in ast.walk(v) if isinstance(n, ast.Name)}
                if len(set(names)) == len(names) and not (set(names) & used):
                    for t, v in zip(st.targets[0].elts, st.value.elts):
                        new = ast.Assign(targets=[t], value=v, lineno=st.lineno)
                        ast.copy_location(new, st)
                        out.append(new)
                    continue
            for f in ('body', 'orelse', 'finalbody'):
                v = getattr(st, f, None)
                if isinstance(v, list) and v and isinstance(v[0], ast.stmt):
                    setattr(st, f, fix(v))
            for h in getattr(st, 'handlers', ()):
                h.body = fix(h.body)
            out.append(st)
        return out

    func.body = fix(func.body)


def _stable_test(e, stores):
    """a test whose value cannot change while the function runs and whose evaluation has no
    effect: identity comparisons and isinstance / issubclass over type(p) / p / module-level
    names, p never rebound in the function; combined with not / and / or"""
    def operand(x):
        if isinstance(x, ast.Constant):
            return True
        if isinstance(x, ast.Name):
            return not stores.get(x.id)
        if isinstance(x, ast.Call) and isinstance(x.func, ast.Name) and x.func.id in ('type', 'id') and len(x.args) == 1 \
                and not x.keywords and not stores.get(x.func.id):
            return operand(x.args[0])
        if isinstance(x, ast.Tuple):
            return all(operand(y) for y in x.elts)
        return False
    if isinstance(e, ast.Compare) and len(e.ops) == 1 and isinstance(e.ops[0], (ast.Is, ast.IsNot)):
        return operand(e.left) and operand(e.comparators[0])
    if isinstance(e, ast.Call) and isinstance(e.func, ast.Name) and e.func.id in ('isinstance', 'issubclass') and len(e.args) == 2 \
            and not e.keywords and not stores.get(e.func.id):
        return operand(e.args[0]) and operand(e.args[1])
    if isinstance(e, ast.UnaryOp) and isinstance(e.op, ast.Not):
        return _stable_test(e.operand, stores)
    if isinstance(e, ast.BoolOp):
        return all(_stable_test(v, stores) for v in e.values)
    return False


def _len_stable(func, before, p_, stores):
    """``len(p_)`` has one value throughout: p_ is a parameter or a local bound once, earlier in the
    same block, and is only ever measured or read by subscript (never handed to a call that could
    grow it, never stored into, never the receiver of a method)"""
    if stores.get(p_, 0) > 1:
        return False
    if stores.get(p_) == 1 and not any(isinstance(b, ast.Assign) and len(b.targets) == 1 and isinstance(b.targets[0], ast.Name)
                                       and b.targets[0].id == p_ for b in before):
        return False
    par = {}
    for n in ast.walk(func):
        for c in ast.iter_child_nodes(n):
            par[id(c)] = n
    for n in ast.walk(func):
        if isinstance(n, ast.Name) and n.id == p_ and isinstance(n.ctx, ast.Load):
            q = par.get(id(n))
            if isinstance(q, ast.Call) and isinstance(q.func, ast.Name) and q.func.id == 'len' and n in q.args:
                continue
            if isinstance(q, ast.Subscript) and q.value is n and isinstance(q.ctx, ast.Load):
                continue
            return False
    return True


def propagate_type_temps(func):
    """``v = type(p)`` / ``v = id(p)`` / ``v = len(p)`` (p of stable length, see _len_stable) with p a name that is never rebound in the function and
    v assigned only there, every use of v following the assignment inside its block:
    substitute the call for v and drop the assignment (undoes common-subexpression extraction
    of the two identity-only builtins)"""
    stores = {}
    for n in ast.walk(func):
        if isinstance(n, ast.Name) and isinstance(n.ctx, (ast.Store, ast.Del)):
            stores[n.id] = stores.get(n.id, 0) + 1
        elif isinstance(n, ast.ExceptHandler) and n.name:
            stores[n.name] = stores.get(n.name, 0) + 1
        elif isinstance(n, ast.arg):
            pass
    shadow = {n.id for n in ast.walk(func) if isinstance(n, ast.Name) and n.id in ('type', 'id', 'len')
              and isinstance(n.ctx, ast.Store)}
    if shadow:
        return

    def blocks(node):
        for f in ('body', 'orelse', 'finalbody'):
            v = getattr(node, f, None)
            if isinstance(v, list) and v and isinstance(v[0], ast.stmt):
                yield v
        for h in getattr(node, 'handlers', ()):
            yield h.body

    def visit(block):
        i = 0
        while i < len(block):
            st = block[i]
            if isinstance(st, _FUNC):
                i += 1
                continue
            done = False
            if isinstance(st, ast.Assign) and len(st.targets) == 1 and isinstance(st.targets[0], ast.Name) \
                    and not isinstance(st.value, ast.Call) and stores.get(st.targets[0].id) == 1 \
                    and _stable_test(st.value, stores):
                # a named identity / class test: ``is_t = type(spec) is TType``
                v = st.targets[0].id
                rest = block[i + 1:]
                inside = sum(1 for s2 in rest for n in ast.walk(s2) if isinstance(n, ast.Name) and n.id == v)
                total = sum(1 for n in ast.walk(func) if isinstance(n, ast.Name) and n.id == v)
                in_nested = any(isinstance(n, ast.Name) and n.id == v for s2 in rest for f2 in ast.walk(s2)
                                if isinstance(f2, _FUNC + (ast.Lambda,)) for n in ast.walk(f2))
                if inside == total - 1 and inside >= 1 and not in_nested:
                    class Put2(ast.NodeTransformer):
                        def visit_Name(self, node):
                            if node.id == v and isinstance(node.ctx, ast.Load):
                                return ast.copy_location(copy.deepcopy(st.value), node)
                            return node
                    for k in range(i + 1, len(block)):
                        block[k] = Put2().visit(block[k])
                    del block[i]
                    continue
            if isinstance(st, ast.Assign) and len(st.targets) == 1 and isinstance(st.targets[0], ast.Name) \
                    and isinstance(st.value, ast.Call) and isinstance(st.value.func, ast.Name) \
                    and st.value.func.id in ('type', 'id', 'len') and len(st.value.args) == 1 and not st.value.keywords \
                    and isinstance(st.value.args[0], ast.Name):
                v, p_ = st.targets[0].id, st.value.args[0].id
                if stores.get(v) == 1 and v != p_ and (not stores.get(p_) if st.value.func.id != 'len' else _len_stable(func, block[:i], p_, stores)):
                    rest = block[i + 1:]
                    inside = sum(1 for s2 in rest for n in ast.walk(s2) if isinstance(n, ast.Name) and n.id == v)
                    total = sum(1 for n in ast.walk(func) if isinstance(n, ast.Name) and n.id == v)
                    if inside == total - 1 and inside >= 1:
                        class Put(ast.NodeTransformer):
                            def visit_Name(self, node):
                                if node.id == v and isinstance(node.ctx, ast.Load):
                                    return ast.copy_location(copy.deepcopy(st.value), node)
                                return node
                        for k in range(i + 1, len(block)):
                            block[k] = Put().visit(block[k])
                        del block[i]
                        done = True
            if done:
                continue
            for b in blocks(st):
                visit(b)
            i += 1

    visit(func.body)


def append_loop_to_comprehension(func, log=None):
    """``x = []`` immediately followed by ``for t in it: x.append(e)`` (nothing else in the loop,
    no else clause, x not mentioned in e / it)  ->  ``x = [e for t in it]``"""

    def fix(body):
        out = []
        i = 0
        while i < len(body):
            st = body[i]
            nxt = body[i + 1] if i + 1 < len(body) else None
            if isinstance(st, ast.Assign) and len(st.targets) == 1 and isinstance(st.targets[0], ast.Name) \
                    and isinstance(st.value, ast.List) and not st.value.elts \
                    and isinstance(nxt, ast.For) and not nxt.orelse and len(nxt.body) == 1:
                x = st.targets[0].id
                b = nxt.body[0]

                def appended(b_):
                    """the expression a statement appends to x: ``x.append(e)``, or an if / elif / else
                    chain every branch of which is one such statement (a conditional expression)"""
                    if isinstance(b_, ast.Expr) and isinstance(b_.value, ast.Call) and isinstance(b_.value.func, ast.Attribute) \
                            and b_.value.func.attr == 'append' and isinstance(b_.value.func.value, ast.Name) \
                            and b_.value.func.value.id == x and len(b_.value.args) == 1 and not b_.value.keywords:
                        return b_.value.args[0]
                    if isinstance(b_, ast.If) and len(b_.body) == 1 and len(b_.orelse) == 1:
                        e1, e2 = appended(b_.body[0]), appended(b_.orelse[0])
                        if e1 is not None and e2 is not None and not any(isinstance(n, ast.Name) and n.id == x for n in ast.walk(b_.test)):
                            return ast.copy_location(ast.IfExp(test=b_.test, body=e1, orelse=e2), b_)
                    return None
                e = appended(b)
                if e is not None:
                    mentions = any(isinstance(n, ast.Name) and n.id == x for n in list(ast.walk(e)) + list(ast.walk(nxt.iter)))
                    if not mentions:
                        comp = ast.ListComp(elt=e, generators=[ast.comprehension(target=nxt.target, iter=nxt.iter, ifs=[], is_async=0)])
                        new = ast.Assign(targets=st.targets, value=comp, lineno=st.lineno)
                        ast.copy_location(new, nxt)
                        ast.copy_location(comp, nxt)
                        ast.fix_missing_locations(new)
                        if log is not None:
                            log.append((func.name, x, st.lineno))
                        out.append(new)
                        i += 2
                        continue
            if not isinstance(st, _FUNC):
                for f in ('body', 'orelse', 'finalbody'):
                    v = getattr(st, f, None)
                    if isinstance(v, list) and v and isinstance(v[0], ast.stmt):
                        setattr(st, f, fix(v))
                for h in getattr(st, 'handlers', ()):
                    h.body = fix(h.body)
            out.append(st)
            i += 1
        return out

    func.body = fix(func.body)


class _DictCopy(ast.NodeTransformer):
    """``{**x}``  ->  ``dict(x)`` (the two spellings of a shallow dict copy)"""

    def visit_Dict(self, node):
        self.generic_visit(node)
        if len(node.keys) == 1 and node.keys[0] is None:
            c = ast.Call(func=ast.Name(id='dict', ctx=ast.Load()), args=[node.values[0]], keywords=[])
            return ast.fix_missing_locations(ast.copy_location(c, node))
        return node


class _OrDefault(ast.NodeTransformer):
    """``x = x or E`` / ``x = x if x else E`` / ``x = E if not x else x``  ->  ``if not x: x = E``"""

    def visit_Assign(self, node):
        if not (len(node.targets) == 1 and isinstance(node.targets[0], ast.Name)):
            return node
        x = node.targets[0].id
        v = node.value

        def is_x(e):
            return isinstance(e, ast.Name) and e.id == x

        dflt = None
        if isinstance(v, ast.BoolOp) and isinstance(v.op, ast.Or) and len(v.values) == 2 and is_x(v.values[0]):
            dflt = v.values[1]
        elif isinstance(v, ast.IfExp) and is_x(v.test) and is_x(v.body):
            dflt = v.orelse
        elif isinstance(v, ast.IfExp) and isinstance(v.test, ast.UnaryOp) and isinstance(v.test.op, ast.Not) \
                and is_x(v.test.operand) and is_x(v.orelse):
            dflt = v.body
        if dflt is None:
            return node
        test = ast.UnaryOp(op=ast.Not(), operand=ast.Name(id=x, ctx=ast.Load()))
        new = ast.If(test=test, body=[ast.Assign(targets=node.targets, value=dflt, lineno=node.lineno)], orelse=[])
        ast.copy_location(new, node)
        ast.copy_location(new.body[0], node)
        ast.fix_missing_locations(new)
        return new


_OPERATOR_CMP = {'gt': ast.Gt, 'lt': ast.Lt, 'ge': ast.GtE, 'le': ast.LtE, 'eq': ast.Eq, 'ne': ast.NotEq,
                 'is_': ast.Is, 'is_not': ast.IsNot}
_OPERATOR_BIN = {'add': ast.Add, 'sub': ast.Sub, 'mul': ast.Mult, 'truediv': ast.Div, 'floordiv': ast.FloorDiv,
                 'mod': ast.Mod, 'pow': ast.Pow, 'and_': ast.BitAnd, 'or_': ast.BitOr, 'xor': ast.BitXor,
                 'lshift': ast.LShift, 'rshift': ast.RShift, 'matmul': ast.MatMult}


_OPERATOR_UN = {'invert': ast.Invert, 'inv': ast.Invert, 'neg': ast.USub, 'pos': ast.UAdd,
                '__invert__': ast.Invert, '__neg__': ast.USub, '__pos__': ast.UAdd}


class _OperatorCalls(ast.NodeTransformer):
    """``operator.gt(a, b)`` is ``a > b`` (likewise the other comparison / arithmetic functions of
    the standard operator module, called directly with two positional arguments); only in a
    module that imports ``operator`` as such and never rebinds the name"""
    def visit_Call(self, node):
        self.generic_visit(node)
        f = node.func
        if isinstance(f, ast.Attribute) and isinstance(f.value, ast.Name) and f.value.id == 'operator' \
                and len(node.args) == 2 and not node.keywords and not any(isinstance(a, ast.Starred) for a in node.args):
            if f.attr in _OPERATOR_CMP:
                return ast.copy_location(ast.Compare(left=node.args[0], ops=[_OPERATOR_CMP[f.attr]()], comparators=[node.args[1]]), node)
            if f.attr in _OPERATOR_BIN:
                return ast.copy_location(ast.BinOp(left=node.args[0], op=_OPERATOR_BIN[f.attr](), right=node.args[1]), node)
        if isinstance(f, ast.Attribute) and isinstance(f.value, ast.Name) and f.value.id == 'operator' \
                and len(node.args) == 1 and not node.keywords and not isinstance(node.args[0], ast.Starred) and f.attr in _OPERATOR_UN:
            return ast.copy_location(ast.UnaryOp(op=_OPERATOR_UN[f.attr](), operand=node.args[0]), node)
        return node

    def visit_Expr(self, node):
        # ``operator.delitem(a, b)`` as a statement is ``del a[b]``
        v = node.value
        if isinstance(v, ast.Call) and isinstance(v.func, ast.Attribute) and isinstance(v.func.value, ast.Name) \
                and v.func.value.id == 'operator' and v.func.attr == 'delitem' and len(v.args) == 2 and not v.keywords:
            a, b = self.visit(v.args[0]), self.visit(v.args[1])
            return ast.copy_location(ast.Delete(targets=[ast.Subscript(value=a, slice=b, ctx=ast.Del())]), node)
        self.generic_visit(node)
        return node


def _operator_is_the_module(tree):
    imported = any(isinstance(n, ast.Import) and any(a.name == 'operator' and a.asname is None for a in n.names) for n in tree.body)
    rebound = any(isinstance(n, ast.Name) and n.id == 'operator' and not isinstance(n.ctx, ast.Load) for n in ast.walk(tree)) or \
        any(isinstance(n, ast.arg) and n.arg == 'operator' for n in ast.walk(tree))
    return imported and not rebound


def apply_all(tree):
    tree = _DictCopy().visit(tree)
    tree = _OrDefault().visit(tree)
    tree = _PositiveElse().visit(tree)
    tree = expand_constant_dispatch(tree)
    if isinstance(tree, ast.Module) and _operator_is_the_module(tree):
        tree = _OperatorCalls().visit(tree)
    for node in ast.walk(tree):
        if isinstance(node, (ast.FunctionDef, ast.AsyncFunctionDef)):
            break_to_return(node)
            no_else_after_terminating_if(node)
            split_chained_assign(node)
            split_tuple_assign(node)
            specialise_bound_tail(node)
            unroll_literal_table_loops(node)
            append_then_unpack(node)
            append_loop_to_comprehension(node)
            propagate_type_temps(node)
            if_assign_to_ifexp(node)
            for_range_to_while(node)
            coalesce_copies(node)
            coalesce_block_copies(node)
            coalesce_copy_in(node)
            inline_adjacent_temps(node)
    if isinstance(tree, ast.Module) and _operator_is_the_module(tree):
        tree = ast.fix_missing_locations(_OperatorCalls().visit(tree))
    return tree


def normalise_template(tree):
    """the expression-level normal forms (negation forms, positive two-way choices), for
    pattern templates"""
    from .program import _NegForms
    tree = _NegForms().visit(tree)
    tree = _PositiveElse().visit(tree)
    tree = _DictCopy().visit(tree)
    return ast.fix_missing_locations(tree)
