"""Self-validation of the checker on the *current* source, both ways:

* silent twins   -- behaviour-preserving rewrites of the whole package computed
                    from the current tree (re-printing, renaming every local
                    variable, bare raise -> raise e, edited messages, a no-op
                    statement at the start of every function): every rule must
                    return the same verdicts as on the tree the twin was
                    derived from;
* firing mutants -- one instance broken by a small edit (sa/mutants.py): the
                    property's check must report a violation.

Variants are built in memory (Program(sources)); nothing is written to disk.
A mutant whose anchor text is no longer present is a *stale witness*, not a
failure.  Used by the thorough tier and by `python -m sa.selftest`.
"""
import ast
import copy
import os
import sys
import time
import multiprocessing

from .program import Program, AnalysisError, read_sources


# ---------------------------------------------------------------------------
# twins

def _unparse_all(sources, transform=None):
    out = {}
    for path, src in sources.items():
        tree = ast.parse(src)
        if transform is not None:
            tree = transform(path, tree) or tree
        ast.fix_missing_locations(tree)
        out[path] = ast.unparse(tree) + '\n'
    return out


class _Scope:
    def __init__(self, node, parent):
        self.node = node
        self.parent = parent
        self.children = []
        self.params = set()
        self.locals = set()
        self.uses = set()

    def walk(self):
        yield self
        for c in self.children:
            yield from c.walk()


def _build_scopes(func, parent=None):
    sc = _Scope(func, parent)
    a = func.args
    for x in a.posonlyargs + a.args + a.kwonlyargs:
        sc.params.add(x.arg)
    if a.vararg:
        sc.params.add(a.vararg.arg)
    if a.kwarg:
        sc.params.add(a.kwarg.arg)
    body = func.body if isinstance(func.body, list) else [func.body]
    stack = list(body)
    # defaults/decorators belong to the enclosing scope
    while stack:
        n = stack.pop()
        if isinstance(n, (ast.FunctionDef, ast.AsyncFunctionDef, ast.Lambda)):
            if isinstance(n, (ast.FunctionDef, ast.AsyncFunctionDef)):
                sc.locals.add(n.name)
            sc.children.append(_build_scopes(n, sc))
            for d in n.args.defaults + [k for k in n.args.kw_defaults if k is not None]:
                stack.append(d)
            continue
        if isinstance(n, ast.ClassDef):
            sc.locals.add(n.name)
            continue          # class bodies are left alone
        if isinstance(n, ast.Name):
            if isinstance(n.ctx, (ast.Store, ast.Del)):
                sc.locals.add(n.id)
            sc.uses.add(n.id)
        elif isinstance(n, ast.ExceptHandler) and n.name:
            sc.locals.add(n.name)
        elif isinstance(n, (ast.Import, ast.ImportFrom)):
            for al in n.names:
                sc.params.add((al.asname or al.name).split('.')[0])    # bound by an import: never renamed
        elif isinstance(n, (ast.Global, ast.Nonlocal)):
            sc.params.update(n.names)      # never rename
        stack.extend(ast.iter_child_nodes(n))
    return sc


class _Renamer(ast.NodeTransformer):
    """rename local variables (not parameters) of every function; a nested
    function sees the renamed name unless it rebinds the name itself"""

    def __init__(self, suffix='_rn'):
        self.suffix = suffix
        self.maps = [{}]

    def _enter(self, func):
        sc = _build_scopes(func)
        inherited = dict(self.maps[-1])
        own = (sc.locals - sc.params)
        # names rebound by a nested scope as parameter are shadowed there, handled on entry of that scope
        for n in sc.params | own:
            inherited.pop(n, None)
        # a class nested in the function is left alone: names it uses keep their spelling
        used_in_classes = set()
        body = func.body if isinstance(func.body, list) else [func.body]
        for b in body:
            for x in ast.walk(b):
                if isinstance(x, ast.ClassDef):
                    for y in ast.walk(x):
                        if isinstance(y, ast.Name):
                            used_in_classes.add(y.id)
        for n in own:
            if n.startswith('__') or n in used_in_classes:
                continue
            inherited[n] = n + self.suffix
        return inherited

    def visit_FunctionDef(self, node):
        # decorators / defaults in the outer mapping
        node.decorator_list = [self.visit(d) for d in node.decorator_list]
        node.args.defaults = [self.visit(d) for d in node.args.defaults]
        node.args.kw_defaults = [self.visit(d) if d is not None else None for d in node.args.kw_defaults]
        if node.name in self.maps[-1]:
            node.name = self.maps[-1][node.name]
        self.maps.append(self._enter(node))
        node.body = [self.visit(s) for s in node.body]
        self.maps.pop()
        return node

    visit_AsyncFunctionDef = visit_FunctionDef

    def visit_Lambda(self, node):
        node.args.defaults = [self.visit(d) for d in node.args.defaults]
        self.maps.append(self._enter(node))
        node.body = self.visit(node.body)
        self.maps.pop()
        return node

    def visit_ClassDef(self, node):
        # methods of a class start a fresh mapping
        self.maps.append({})
        node.body = [self.visit(s) for s in node.body]
        self.maps.pop()
        return node

    def visit_Name(self, node):
        m = self.maps[-1]
        if node.id in m:
            node.id = m[node.id]
        return node

    def visit_ExceptHandler(self, node):
        if node.name and node.name in self.maps[-1]:
            node.name = self.maps[-1][node.name]
        self.generic_visit(node)
        return node


def twin_unparse(sources):
    return _unparse_all(sources)


def twin_rename(sources):
    return _unparse_all(sources, lambda path, tree: _Renamer().visit(tree))


class _RaiseE(ast.NodeTransformer):
    def visit_ExceptHandler(self, node):
        self.generic_visit(node)
        name = node.name

        class R(ast.NodeTransformer):
            def visit_Raise(s, r):
                if r.exc is None and r.cause is None and name:
                    return ast.Raise(exc=ast.Name(id=name, ctx=ast.Load()), cause=None)
                return r

            def visit_ExceptHandler(s, h):
                return h       # inner handlers re-raise their own exception

            def visit_FunctionDef(s, f):
                return f

            def visit_Lambda(s, f):
                return f
        if name:
            node.body = [R().visit(b) for b in node.body]
        return node


def twin_raise_e(sources):
    return _unparse_all(sources, lambda path, tree: _RaiseE().visit(tree))


class _Messages(ast.NodeTransformer):
    def visit_Raise(self, node):
        exc = node.exc
        if isinstance(exc, ast.Call) and exc.args and isinstance(exc.args[0], ast.Constant) \
                and isinstance(exc.args[0].value, str) and len(exc.args[0].value) > 12:
            exc.args[0] = ast.Constant(value=exc.args[0].value + ' [reworded]')
        return node


def twin_messages(sources):
    return _unparse_all(sources, lambda path, tree: _Messages().visit(tree))


class _Noop(ast.NodeTransformer):
    def visit_FunctionDef(self, node):
        self.generic_visit(node)
        stmt = ast.Assign(targets=[ast.Name(id='_trace_on', ctx=ast.Store())], value=ast.Constant(value=False), lineno=node.lineno)
        i = 0
        if node.body and isinstance(node.body[0], ast.Expr) and isinstance(node.body[0].value, ast.Constant) \
                and isinstance(node.body[0].value.value, str):
            i = 1
        node.body.insert(i, stmt)
        return node


def twin_noop(sources):
    return _unparse_all(sources, lambda path, tree: _Noop().visit(tree))


class _RetTemp(ast.NodeTransformer):
    """return f(x)  ->  _ret_v = f(x); return _ret_v   (functions only, not generators' bare returns)"""

    def _rewrite(self, body):
        out = []
        for st in body:
            if isinstance(st, ast.Return) and isinstance(st.value, (ast.Call, ast.BinOp, ast.Subscript)):
                nm = '_ret_v%d' % getattr(st, 'lineno', 0)
                out.append(ast.Assign(targets=[ast.Name(id=nm, ctx=ast.Store())], value=st.value, lineno=st.lineno))
                out.append(ast.Return(value=ast.Name(id=nm, ctx=ast.Load())))
            else:
                out.append(st)
        return out

    def generic_visit(self, node):
        super().generic_visit(node)
        for f in ('body', 'orelse', 'finalbody'):
            v = getattr(node, f, None)
            if isinstance(v, list) and v and isinstance(v[0], ast.stmt):
                setattr(node, f, self._rewrite(v))
        return node


def twin_ret_temp(sources):
    return _unparse_all(sources, lambda path, tree: _RetTemp().visit(tree))


def _pure_simple(e):
    return all(isinstance(x, (ast.Name, ast.Constant, ast.Attribute, ast.Tuple, ast.List, ast.Dict, ast.Load, ast.Store,
                              ast.expr_context)) for x in ast.walk(e))


class _SwapAssign(ast.NodeTransformer):
    """swap adjacent independent simple assignments  a = e1; b = e2  ->  b = e2; a = e1"""

    def _rewrite(self, body):
        out = list(body)
        i = 0
        while i + 1 < len(out):
            a, b = out[i], out[i + 1]
            if isinstance(a, ast.Assign) and isinstance(b, ast.Assign) and len(a.targets) == 1 and len(b.targets) == 1 \
                    and isinstance(a.targets[0], ast.Name) and isinstance(b.targets[0], ast.Name) \
                    and _pure_simple(a.value) and _pure_simple(b.value) \
                    and not any(isinstance(x, ast.Attribute) for x in list(ast.walk(a.value)) + list(ast.walk(b.value))):
                na = {x.id for x in ast.walk(a) if isinstance(x, ast.Name)}
                nb = {x.id for x in ast.walk(b) if isinstance(x, ast.Name)}
                if a.targets[0].id not in nb and b.targets[0].id not in na:
                    out[i], out[i + 1] = b, a
                    i += 2
                    continue
            i += 1
        return out

    def generic_visit(self, node):
        super().generic_visit(node)
        for f in ('body', 'orelse', 'finalbody'):
            v = getattr(node, f, None)
            if isinstance(v, list) and v and isinstance(v[0], ast.stmt) and not isinstance(node, (ast.Module, ast.ClassDef)):
                setattr(node, f, self._rewrite(v))
        return node


def twin_swap(sources):
    return _unparse_all(sources, lambda path, tree: _SwapAssign().visit(tree))


class _NegTwin(ast.NodeTransformer):
    def visit_Compare(self, node):
        self.generic_visit(node)
        if len(node.ops) == 1 and isinstance(node.ops[0], (ast.IsNot, ast.NotIn)):
            pos = ast.Is() if isinstance(node.ops[0], ast.IsNot) else ast.In()
            return ast.UnaryOp(op=ast.Not(), operand=ast.Compare(left=node.left, ops=[pos], comparators=node.comparators))
        return node


def twin_negforms(sources):
    return _unparse_all(sources, lambda path, tree: _NegTwin().visit(tree))


class _ChoiceStmt(ast.NodeTransformer):
    """``x = a if c else b`` (statement level)  ->  ``if c: x = a`` / ``else: x = b``"""

    def visit_Assign(self, node):
        if len(node.targets) == 1 and isinstance(node.targets[0], ast.Name) and isinstance(node.value, ast.IfExp):
            v = node.value
            mk = lambda e: ast.Assign(targets=[ast.Name(id=node.targets[0].id, ctx=ast.Store())], value=e, lineno=node.lineno)
            return ast.If(test=v.test, body=[mk(v.body)], orelse=[mk(v.orelse)])
        return node


def twin_choice_stmt(sources):
    return _unparse_all(sources, lambda path, tree: ast.fix_missing_locations(_ChoiceStmt().visit(tree)))


def _negate(t):
    if isinstance(t, ast.UnaryOp) and isinstance(t.op, ast.Not):
        return t.operand
    comp = {ast.Is: ast.IsNot, ast.IsNot: ast.Is, ast.In: ast.NotIn, ast.NotIn: ast.In, ast.Eq: ast.NotEq, ast.NotEq: ast.Eq}
    if isinstance(t, ast.Compare) and len(t.ops) == 1 and type(t.ops[0]) in comp:
        return ast.Compare(left=t.left, ops=[comp[type(t.ops[0])]()], comparators=t.comparators)
    return ast.UnaryOp(op=ast.Not(), operand=t)


class _FlipElse(ast.NodeTransformer):
    """``if c: A`` / ``else: B``  ->  ``if not c: B`` / ``else: A``  (two-way ifs only: no elif
    chain on either side)"""

    def visit_If(self, node, in_chain=False):
        chain = len(node.orelse) == 1 and isinstance(node.orelse[0], ast.If)
        node.body = [self.visit(s) for s in node.body]
        if chain:
            node.orelse = [self.visit_If(node.orelse[0], True)]
            return node
        node.orelse = [self.visit(s) for s in node.orelse]
        if node.orelse and not in_chain:
            return ast.copy_location(ast.If(test=_negate(node.test), body=node.orelse, orelse=node.body), node)
        return node


def twin_flip_else(sources):
    return _unparse_all(sources, lambda path, tree: ast.fix_missing_locations(_FlipElse().visit(tree)))


TWINS = {
    'reprint': twin_unparse,
    'rename-locals': twin_rename,
    'raise-e': twin_raise_e,
    'messages': twin_messages,
    'noop-stmt': twin_noop,
    'return-temp': twin_ret_temp,
    'swap-assign': twin_swap,
    'neg-forms': twin_negforms,
    'choice-stmt': twin_choice_stmt,
    'flip-else': twin_flip_else,
}


# ---------------------------------------------------------------------------

def run_property(sources, pid):
    """-> (set of (rule, qual) violated, list of errors, n obligations)"""
    from .framework import run_rules
    try:
        program = Program(sources)
        ctx, errors = run_rules(program, pid, 'quick')
    except AnalysisError as e:
        return set(), [str(e)], 0
    viol = {(o.rule, o.qual) for o in ctx.obs if o.verdict == 'violation'}
    # a listed known finding whose construct is still there but which the rule no longer derives
    # is an analysis error of the real check: count it here too
    from .framework import apply_known, lost_known
    errors = list(errors) + lost_known(ctx, apply_known(ctx))
    return viol, errors, len(ctx.obs)


def _twin_job(args):
    kind, pid, sources = args
    try:
        tw = TWINS[kind](sources)
    except Exception as e:
        return kind, pid, None, ['twin generation failed: %s: %s' % (type(e).__name__, e)], 0
    v, e, n = run_property(tw, pid)
    return kind, pid, sorted(v), e, n


def _mutant_job(args):
    mid, pid, sources = args
    v, e, n = run_property(sources, pid)
    return mid, pid, sorted(v), e, n


def apply_mutant(sources, m):
    """returns new sources or None when the anchor text is not present exactly
    once (stale witness)"""
    path = m['file']
    src = sources.get(path)
    if src is None:
        return None
    if src.count(m['old']) != 1:
        return None
    out = dict(sources)
    out[path] = src.replace(m['old'], m['new'], 1)
    try:
        ast.parse(out[path])
    except SyntaxError:
        return None
    return out


def apply_unified_diff(sources, diff_text):
    """apply a git-style unified diff to the in-memory sources; None when a hunk does not apply"""
    import re
    out = dict(sources)
    files = re.split(r'^diff --git .*$', diff_text, flags=re.M)
    for chunk in files:
        m = re.search(r'^\+\+\+ b/(\S+)', chunk, flags=re.M)
        if not m:
            continue
        path = m.group(1)
        if path not in out:
            return None
        lines = out[path].split('\n')
        hunks = re.split(r'^@@ ', chunk, flags=re.M)[1:]
        offset = 0
        for h in hunks:
            hm = re.match(r'-(\d+)(?:,(\d+))? \+(\d+)(?:,(\d+))? @@.*\n', h)
            if not hm:
                return None
            start = int(hm.group(1))
            body = h[hm.end():].split('\n')
            old, new = [], []
            for ln in body:
                if ln.startswith('\\'):
                    continue
                if ln.startswith('-'):
                    old.append(ln[1:])
                elif ln.startswith('+'):
                    new.append(ln[1:])
                elif ln.startswith(' ') or ln == '':
                    if ln == '' and body.index(ln) == len(body) - 1:
                        continue
                    old.append(ln[1:])
                    new.append(ln[1:])
            # drop a trailing artefact of the final split
            while old and new and old[-1] == '' and new[-1] == '' and len(old) > int(hm.group(2) or 1):
                old.pop()
                new.pop()
            pos = start - 1 + offset
            if lines[pos:pos + len(old)] != old:
                # search nearby
                found = None
                for d in range(-40, 41):
                    if pos + d >= 0 and lines[pos + d:pos + d + len(old)] == old:
                        found = pos + d
                        break
                if found is None:
                    return None
                pos = found
            lines[pos:pos + len(old)] = new
            offset += len(new) - len(old)
        out[path] = '\n'.join(lines)
        try:
            ast.parse(out[path])
        except SyntaxError:
            return None
    return out


def seeded_for(pid):
    from .framework import VERIF
    base = os.path.join(VERIF, 'seeded')
    out = []
    if os.path.isdir(base):
        for d in sorted(os.listdir(base)):
            if d.startswith(pid + '-') and os.path.exists(os.path.join(base, d, 'patch.diff')):
                out.append((d, open(os.path.join(base, d, 'patch.diff'), encoding='utf-8').read()))
    return out


def benign_all():
    from .framework import VERIF
    base = os.path.join(VERIF, 'benign')
    out = []
    if os.path.isdir(base):
        for d in sorted(os.listdir(base)):
            f = os.path.join(base, d, 'patch.diff')
            if os.path.exists(f):
                out.append((d, open(f, encoding='utf-8').read()))
    return out


def mutants_for(pid):
    from .mutants import MUTANTS
    return [m for m in MUTANTS if pid in m['props']]


def controls_for(pid):
    from .mutants import CONTROLS
    return [m for m in CONTROLS if pid in m['props']]


def thorough_extra(program, pid, ctx, jobs=None):
    """run the corpus for one property; returns (extra coverage dict, errors)"""
    from .framework import KNOWN_FILE
    sources = program.sources
    base_viol = {(o.rule, o.qual) for o in ctx.obs if o.verdict in ('violation', 'known')}
    errors = []
    jobs = jobs or min(16, os.cpu_count() or 4)
    twin_args = [(k, pid, sources) for k in TWINS]
    ms = mutants_for(pid)
    mut_args = []
    stale = []
    for m in ms:
        s2 = apply_mutant(sources, m)
        if s2 is None:
            stale.append(m['id'])
        else:
            mut_args.append((m['id'], pid, s2))
    ctl_args = []
    for m in controls_for(pid):
        s2 = apply_mutant(sources, m)
        if s2 is None:
            stale.append(m['id'])
        else:
            ctl_args.append((m['id'], pid, s2))
    seed_args = []
    for sid, diff in seeded_for(pid):
        s2 = apply_unified_diff(sources, diff)
        if s2 is None:
            stale.append('seeded/' + sid)
        else:
            seed_args.append(('seeded/' + sid, pid, s2))
    ben_args = []
    for bid, diff in benign_all():
        s2 = apply_unified_diff(sources, diff)
        if s2 is None:
            stale.append('benign/' + bid)
        else:
            ben_args.append(('benign/' + bid, pid, s2))
    t0 = time.time()
    with multiprocessing.Pool(jobs) as pool:
        twin_res = pool.map(_twin_job, twin_args)
        mut_res = pool.map(_mutant_job, mut_args)
        ctl_res = pool.map(_mutant_job, ctl_args)
        seed_res = pool.map(_mutant_job, seed_args)
        ben_res = pool.map(_mutant_job, ben_args)
    for mid, _, v, e, n in ben_res:
        new = set(map(tuple, v)) - base_viol
        if new or e:
            errors.append('behaviour-preserving refactoring %s changes the verdicts of %s: new=%s errors=%s'
                          % (mid, pid, sorted(new)[:3], e[:2]))
    seeds_reported = []
    for mid, _, v, e, n in seed_res:
        new = set(map(tuple, v)) - base_viol
        if new:
            seeds_reported.append({'seeded': mid, 'reported_by': sorted({r for r, _ in new})})
        elif not base_viol:
            errors.append('seeded change %s is not reported by %s' % (mid, pid))
    for mid, _, v, e, n in ctl_res:
        new = set(map(tuple, v)) - base_viol
        if new or e:
            errors.append('behaviour-preserving control %s changes the verdicts of %s: new=%s errors=%s'
                          % (mid, pid, sorted(new)[:3], e[:2]))
    twins_report = []
    for kind, _, v, e, n in twin_res:
        if v is None:
            errors.append('silent twin %s: %s' % (kind, '; '.join(e)))
            continue
        new = set(map(tuple, v)) - base_viol
        lost = base_viol - set(map(tuple, v))
        status = 'same verdicts'
        if new or lost or e:
            status = 'DIFFERS'
            errors.append('silent twin %s changes the verdicts of %s: new=%s lost=%s errors=%s'
                          % (kind, pid, sorted(new)[:3], sorted(lost)[:3], e[:2]))
        twins_report.append({'twin': kind, 'obligations': n, 'status': status})
    fired = []
    missed = []
    byid = {m['id']: m for m in ms}
    for mid, _, v, e, n in mut_res:
        new = set(map(tuple, v)) - base_viol
        if new:
            fired.append({'mutant': mid, 'what': byid[mid]['what'], 'reported_by': sorted({r for r, _ in new})})
        else:
            missed.append(mid)
            if not base_viol:
                errors.append('firing variant %s (%s) is not reported by %s%s'
                              % (mid, byid[mid]['what'], pid, (' [errors: %s]' % e[:1]) if e else ''))
    extra = {
        'selfvalidation': {
            'silent_twins': twins_report,
            'controls_run': len(ctl_res),
            'benign_refactorings_run': len(ben_res),
            'seeded_changes_run': len(seed_res),
            'seeded_changes_reported': len(seeds_reported),
            'seeded_samples': seeds_reported[:6],
            'firing_variants_run': len(mut_res),
            'firing_variants_reported': len(fired),
            'firing_variants_stale': stale,
            'firing_variants_missed': missed,
            'fired_samples': fired[:12],
            'wall_s': round(time.time() - t0, 2),
        },
        'programs': 1 + len(twin_res) + len(mut_res) + len(ctl_res) + len(seed_res) + len(ben_res),
    }
    return extra, errors


def main(argv=None):
    import argparse
    from .rules import PROPERTIES
    ap = argparse.ArgumentParser(prog='sa.selftest')
    ap.add_argument('what', choices=['twins', 'mutants', 'benign', 'seeds', 'all'])
    ap.add_argument('--only', action='append', help='benign/seeded ids (prefix match)')
    ap.add_argument('--pid', action='append')
    ap.add_argument('--twin', action='append')
    ap.add_argument('--jobs', type=int, default=min(16, os.cpu_count() or 4))
    ap.add_argument('-v', action='store_true')
    args = ap.parse_args(argv)
    pids = args.pid or PROPERTIES
    sources = read_sources()
    rc = 0
    with multiprocessing.Pool(args.jobs) as pool:
        base = {}
        for pid, (v, e, n) in zip(pids, pool.starmap(run_property, [(sources, p) for p in pids])):
            base[pid] = (v, e, n)
            if e:
                print('BASE %s errors: %s' % (pid, e))
        if args.what in ('twins', 'all'):
            kinds = args.twin or list(TWINS)
            res = pool.map(_twin_job, [(k, p, sources) for k in kinds for p in pids])
            for kind, pid, v, e, n in res:
                bv = base[pid][0]
                vv = set(map(tuple, v or []))
                if v is None or vv != bv or e:
                    rc = 1
                    print('TWIN %-14s %s DIFFERS: new=%s lost=%s n=%d (base %d)' % (kind, pid, sorted(vv - bv), sorted(bv - vv), n, base[pid][2]))
                    for x in e:
                        print('      error: %s' % x)
                elif args.v:
                    print('twin %-14s %s same (%d obligations, base %d)' % (kind, pid, n, base[pid][2]))
        if args.what in ('mutants', 'all'):
            from .mutants import MUTANTS
            jobs = []
            for m in MUTANTS:
                for pid in m['props']:
                    if pid not in pids:
                        continue
                    s2 = apply_mutant(sources, m)
                    if s2 is None:
                        print('STALE  %s (%s): anchor text not found exactly once' % (m['id'], pid))
                        rc = 1
                        continue
                    jobs.append((m['id'], pid, s2))
            res = pool.map(_mutant_job, jobs)
            byid = {m['id']: m for m in MUTANTS}
            nf = 0
            for mid, pid, v, e, n in res:
                new = set(map(tuple, v)) - base[pid][0]
                if new:
                    nf += 1
                    if args.v:
                        print('fired  %-28s %s by %s' % (mid, pid, sorted({r for r, _ in new})))
                else:
                    rc = 1
                    print('MISSED %-28s %s  (%s) %s' % (mid, pid, byid[mid]['what'], e[:1] if e else ''))
            print('%d mutant runs, %d fired' % (len(res), nf))
            from .mutants import CONTROLS
            jobs = []
            for m in CONTROLS:
                for pid in m['props']:
                    if pid not in pids:
                        continue
                    s2 = apply_mutant(sources, m)
                    if s2 is None:
                        print('STALE  %s (%s): anchor text not found exactly once' % (m['id'], pid))
                        rc = 1
                        continue
                    jobs.append((m['id'], pid, s2))
            res = pool.map(_mutant_job, jobs)
            for mid, pid, v, e, n in res:
                new = set(map(tuple, v)) - base[pid][0]
                if new or e:
                    rc = 1
                    print('CONTROL %-24s %s ALARMS: %s %s' % (mid, pid, sorted(new)[:3], e[:1]))
            print('%d control runs' % len(res))
        if args.what in ('benign', 'all'):
            jobs = []
            for bid, diff in benign_all():
                if args.only and not any(bid.startswith(o) for o in args.only):
                    continue
                s2 = apply_unified_diff(sources, diff)
                if s2 is None:
                    print('STALE  benign/%s does not apply' % bid)
                    rc = 1
                    continue
                jobs.extend((bid, pid, s2) for pid in pids)
            res = pool.map(_mutant_job, jobs)
            bad = set()
            for mid, pid, v, e, n in res:
                new = set(map(tuple, v)) - base[pid][0]
                if new or e:
                    rc = 1
                    bad.add(mid)
                    print('BENIGN %-8s %s ALARMS: %s %s' % (mid, pid, sorted(new)[:4], e[:2]))
            print('%d benign runs, %d refactorings alarmed: %s' % (len(res), len(bad), sorted(bad)))
        if args.what in ('seeds', 'all'):
            jobs = []
            for pid in pids:
                for sid, diff in seeded_for(pid):
                    if args.only and not any(sid.startswith(o) for o in args.only):
                        continue
                    s2 = apply_unified_diff(sources, diff)
                    if s2 is None:
                        print('STALE  seeded/%s does not apply' % sid)
                        rc = 1
                        continue
                    jobs.append((sid, pid, s2))
            res = pool.map(_mutant_job, jobs)
            nf = 0
            for mid, pid, v, e, n in res:
                new = set(map(tuple, v)) - base[pid][0]
                if new:
                    nf += 1
                    if args.v:
                        print('seed   %-8s %s by %s' % (mid, pid, sorted({r for r, _ in new})))
                else:
                    rc = 1
                    print('SEED-MISSED %-8s %s %s' % (mid, pid, e[:1]))
            print('%d seeded runs, %d reported' % (len(res), nf))
    return rc


if __name__ == '__main__':
    sys.exit(main())
