"""thorough tier additions (self-validation corpus) -- filled in later"""


def thorough_extra(program, pid, ctx):
    return {}, []
