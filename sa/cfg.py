"""Statement-level control-flow graphs with exception edges, dominators,
must-pass / witness-path queries, reaching definitions and a small
path-sensitive explorer.  Standard library only."""
import ast
import builtins
from collections import deque

from .program import AnalysisError, ClassInfo, ClassDefn, Builtin, Local, src

SIMPLE_EXC_TOTAL = ('Exception', 'BaseException')


class Node:
    __slots__ = ('id', 'kind', 'ast', 'stmt', 'succ', 'pred', 'handler_of', 'try_stack',
                 'loop_stack', 'in_handler')

    def __init__(self, id, kind, astnode=None, stmt=None):
        self.id = id
        self.kind = kind          # entry exit raise_exit stmt test for handler with
        self.ast = astnode        # the expression/statement evaluated at this node
        self.stmt = stmt          # the enclosing statement (If/While/For/Try handler...)
        self.succ = []            # (node, label)
        self.pred = []            # (node, label)
        self.handler_of = None    # ast.Try for handler nodes
        self.try_stack = ()       # enclosing try contexts (innermost last)
        self.loop_stack = ()      # enclosing loop header nodes (innermost last)
        self.in_handler = ()      # enclosing ExceptHandler asts (innermost last)

    @property
    def lineno(self):
        a = self.ast if self.ast is not None else self.stmt
        return getattr(a, 'lineno', 0)

    def __repr__(self):
        if self.ast is None:
            return '<%s>' % self.kind
        return '<%s@%d %s>' % (self.kind, self.lineno, src(self.ast, 50))

    def label(self):
        if self.ast is None:
            return self.kind
        if self.kind == 'handler':
            t = src(self.ast.type, 60) if self.ast.type is not None else ''
            return 'except %s' % t
        if self.kind == 'for':
            return 'for %s in %s' % (src(self.ast.target, 30), src(self.ast.iter, 50))
        if self.kind == 'test':
            return 'test %s' % src(self.ast, 70)
        return src(self.ast, 80)


class TryCtx:
    __slots__ = ('try_stmt', 'handlers', 'final')

    def __init__(self, try_stmt, handlers, final=None):
        self.try_stmt = try_stmt
        self.handlers = handlers   # list of handler Nodes
        self.final = final


def _is_pure(e):
    """expression that cannot raise (modulo NameError)"""
    if e is None:
        return True
    if isinstance(e, (ast.Constant, ast.Name, ast.Lambda)):
        return True
    if isinstance(e, (ast.Tuple, ast.List, ast.Set)):
        return all(_is_pure(x) for x in e.elts)
    if isinstance(e, ast.Dict):
        return all(_is_pure(k) for k in e.keys if k is not None) and all(_is_pure(v) for v in e.values) \
            and all(k is not None for k in e.keys)
    if isinstance(e, ast.BoolOp):
        return all(_is_pure(v) for v in e.values)
    if isinstance(e, ast.UnaryOp) and isinstance(e.op, ast.Not):
        return _is_pure(e.operand)
    if isinstance(e, ast.IfExp):
        return _is_pure(e.test) and _is_pure(e.body) and _is_pure(e.orelse)
    if isinstance(e, ast.Compare):
        return all(isinstance(o, (ast.Is, ast.IsNot)) for o in e.ops) and _is_pure(e.left) \
            and all(_is_pure(c) for c in e.comparators)
    if isinstance(e, ast.JoinedStr):
        return False
    return False


def stmt_may_raise(st):
    if isinstance(st, (ast.Pass, ast.Break, ast.Continue, ast.Global, ast.Nonlocal)):
        return False
    if isinstance(st, ast.Expr):
        return not _is_pure(st.value)
    if isinstance(st, ast.Assign):
        return not (_is_pure(st.value) and all(isinstance(t, ast.Name) for t in st.targets))
    if isinstance(st, ast.AnnAssign):
        return not (_is_pure(st.value) and isinstance(st.target, ast.Name))
    if isinstance(st, ast.Return):
        return not _is_pure(st.value)
    if isinstance(st, (ast.FunctionDef, ast.AsyncFunctionDef)):
        return any(not _is_pure(d) for d in st.args.defaults) or bool(st.decorator_list)
    return True


class CFG:
    def __init__(self, unit, program):
        self.unit = unit
        self.program = program
        self.nodes = []
        self.entry = self._new('entry')
        self.exit = self._new('exit')
        self.raise_exit = self._new('raise_exit')
        self._node_of = {}       # ast node -> cfg Node
        self._try_stack = []
        self._loop_stack = []    # (header node, break_frontier list)
        self._handler_stack = []
        frontier = [(self.entry, 'next')]
        frontier = self._block(unit.body(), frontier)
        for n, lab in frontier:
            self._edge(n, self.exit, 'fallthrough' if lab == 'next' else lab)
        if unit.is_lambda:
            for st, cn in list(self._node_of.items()):
                if isinstance(st, ast.Return):
                    self._node_of[unit.node.body] = cn
        for n in self.nodes:
            for s, lab in n.succ:
                s.pred.append((n, lab))
        self._dom = None
        self._rd = None

    # -- construction ----------------------------------------------------
    def _new(self, kind, astnode=None, stmt=None):
        n = Node(len(self.nodes), kind, astnode, stmt)
        n.try_stack = tuple(self._try_stack) if hasattr(self, '_try_stack') else ()
        n.loop_stack = tuple(h for h, _ in self._loop_stack) if hasattr(self, '_loop_stack') else ()
        n.in_handler = tuple(self._handler_stack) if hasattr(self, '_handler_stack') else ()
        self.nodes.append(n)
        return n

    def _edge(self, a, b, label):
        if (b, label) not in a.succ:
            a.succ.append((b, label))

    def _connect(self, frontier, node):
        for n, lab in frontier:
            self._edge(n, node, lab)

    def _block(self, stmts, frontier):
        for st in stmts:
            frontier = self._stmt(st, frontier)
        return frontier

    def _raise_classes(self, st):
        """for a Raise statement: list of classes that may be raised (ClassInfo
        / python type) or None when unknown"""
        exc = st.exc
        if exc is None:
            # bare raise: the classes of the innermost enclosing handler
            if self._handler_stack:
                return self._handler_classes(self._handler_stack[-1]) or None
            return None
        if isinstance(exc, ast.Call):
            exc = exc.func
        if isinstance(exc, ast.Name):
            # raise <handler variable>
            for h in reversed(self._handler_stack):
                if h.name == exc.id:
                    return self._handler_classes(h) or None
        if isinstance(exc, (ast.Name, ast.Attribute)):
            d = self.program.static(self.unit, exc)
            if isinstance(d, ClassDefn):
                return [d.cls]
            if isinstance(d, Builtin) and isinstance(d.obj, type):
                return [d.obj]
        return None

    def _handler_classes(self, h):
        """classes an ExceptHandler names: list of ClassInfo/python types; []
        if not statically known; ['*'] for bare except"""
        if h.type is None:
            return ['*']
        elts = h.type.elts if isinstance(h.type, ast.Tuple) else [h.type]
        out = []
        for e in elts:
            if isinstance(e, (ast.Name, ast.Attribute)):
                d = self.program.static(self.unit, e)
                if isinstance(d, ClassDefn):
                    out.append(d.cls)
                    continue
                if isinstance(d, Builtin) and isinstance(d.obj, type):
                    out.append(d.obj)
                    continue
            return []
        return out

    def handler_classes(self, hnode):
        return self._handler_classes(hnode.ast)

    @staticmethod
    def class_covers(hcls, raised):
        """does handler class hcls catch raised class? True/False"""
        if hcls == '*':
            return True
        if isinstance(raised, ClassInfo):
            return raised.is_subclass_of(hcls)
        if isinstance(raised, type):
            if isinstance(hcls, type):
                return issubclass(raised, hcls)
            return False
        return False

    @staticmethod
    def class_may_overlap(hcls, raised):
        """could an instance of (a subclass of) ``raised`` be caught by hcls?"""
        if CFG.class_covers(hcls, raised):
            return True
        # handler names a subclass of the raised class: a more derived instance
        if isinstance(hcls, ClassInfo):
            return hcls.is_subclass_of(raised)
        if isinstance(hcls, type) and isinstance(raised, type):
            return issubclass(hcls, raised)
        return False

    def _exc_edges(self, node, raised=None):
        """exception edges from node to the handlers that may catch and to the
        exceptional exit; ``raised`` = list of classes or None (unknown)"""
        for ctx in reversed(node.try_stack):
            stop = False
            for h in ctx.handlers:
                hcs = self._handler_classes(h.ast)
                if not hcs:
                    # handler class not static (e.g. ``except self.skip_exc``):
                    # may catch, never known to be total
                    self._edge(node, h, 'exc')
                    continue
                if raised is None:
                    self._edge(node, h, 'exc')
                    if any(c == '*' or (isinstance(c, type) and c.__name__ in SIMPLE_EXC_TOTAL)
                           for c in hcs):
                        stop = True
                        break
                else:
                    if any(self.class_covers(c, r) for c in hcs for r in raised) and \
                            all(any(self.class_covers(c, r) for c in hcs) for r in raised):
                        self._edge(node, h, 'exc')
                        stop = True
                        break
                    if any(self.class_may_overlap(c, r) for c in hcs for r in raised):
                        self._edge(node, h, 'exc')
            if stop:
                return
            if ctx.final is not None:
                # exceptional pass through a finally block: approximated by an
                # edge into the (second copy of the) final body
                self._edge(node, ctx.final, 'exc')
                return
        self._edge(node, self.raise_exit, 'exc')

    def _simple(self, st, frontier):
        n = self._new('stmt', st, st)
        self._node_of[st] = n
        self._connect(frontier, n)
        return n

    def _stmt(self, st, frontier):
        if isinstance(st, ast.If):
            t = self._new('test', st.test, st)
            self._node_of[st] = t
            self._node_of[st.test] = t
            self._connect(frontier, t)
            if not _is_pure(st.test):
                self._exc_edges(t)
            out = self._block(st.body, [(t, 'true')])
            out += self._block(st.orelse, [(t, 'false')]) if st.orelse else [(t, 'false')]
            return out
        if isinstance(st, ast.While):
            t = self._new('test', st.test, st)
            self._node_of[st] = t
            self._node_of[st.test] = t
            self._connect(frontier, t)
            if not _is_pure(st.test):
                self._exc_edges(t)
            breaks = []
            self._loop_stack.append((t, breaks))
            body_out = self._block(st.body, [(t, 'true')])
            self._loop_stack.pop()
            for n, lab in body_out:
                # a branch edge that is also the back edge keeps its branch label
                self._edge(n, t, lab if lab in ('true', 'false') else 'back')
            const_true = isinstance(st.test, ast.Constant) and bool(st.test.value)
            out = [] if const_true else (self._block(st.orelse, [(t, 'false')]) if st.orelse
                                         else [(t, 'false')])
            return out + breaks
        if isinstance(st, (ast.For, ast.AsyncFor)):
            t = self._new('for', st, st)
            self._node_of[st] = t
            self._node_of[st.iter] = t
            self._connect(frontier, t)
            self._exc_edges(t)
            breaks = []
            self._loop_stack.append((t, breaks))
            body_out = self._block(st.body, [(t, 'true')])
            self._loop_stack.pop()
            for n, lab in body_out:
                # a branch edge that is also the back edge keeps its branch label
                self._edge(n, t, lab if lab in ('true', 'false') else 'back')
            out = self._block(st.orelse, [(t, 'false')]) if st.orelse else [(t, 'false')]
            return out + breaks
        if isinstance(st, ast.Try):
            return self._try(st, frontier)
        if isinstance(st, (ast.With, ast.AsyncWith)):
            n = self._new('with', st, st)
            self._node_of[st] = n
            self._connect(frontier, n)
            self._exc_edges(n)
            return self._block(st.body, [(n, 'next')])
        if isinstance(st, ast.Return):
            n = self._simple(st, frontier)
            if stmt_may_raise(st):
                self._exc_edges(n)
            # a return inside try ... finally runs the final bodies (innermost first) on its way out:
            # each gets its own copy, built in the context outside that try statement
            out = [(n, 'return')]
            saved = list(self._try_stack)
            done = set()
            for k in range(len(saved) - 1, -1, -1):
                ts = saved[k].try_stmt
                if not ts.finalbody or id(ts) in done:
                    continue
                done.add(id(ts))
                self._try_stack = [c for c in saved[:k] if c.try_stmt is not ts]
                out = self._block(ts.finalbody, out)
            self._try_stack = saved
            for m, lab in out:
                self._edge(m, self.exit, 'return')
            return []
        if isinstance(st, ast.Raise):
            n = self._simple(st, frontier)
            self._exc_edges(n, self._raise_classes(st))
            return []
        if isinstance(st, ast.Break):
            n = self._simple(st, frontier)
            if not self._loop_stack:
                raise AnalysisError('break outside loop in %s' % self.unit.qualname)
            self._loop_stack[-1][1].append((n, 'break'))
            return []
        if isinstance(st, ast.Continue):
            n = self._simple(st, frontier)
            if not self._loop_stack:
                raise AnalysisError('continue outside loop in %s' % self.unit.qualname)
            self._edge(n, self._loop_stack[-1][0], 'back')
            return []
        if isinstance(st, ast.Match):
            raise AnalysisError('match statement not supported (%s)' % self.unit.qualname)
        # simple statement
        n = self._simple(st, frontier)
        if stmt_may_raise(st):
            self._exc_edges(n)
        return [(n, 'next')]

    def _try(self, st, frontier):
        saved_h = list(self._handler_stack)
        hnodes = []
        # handler entry nodes are created in the *outer* context
        for h in st.handlers:
            hn = self._new('handler', h, st)
            hn.handler_of = st
            self._node_of[h] = hn
            hnodes.append(hn)
        final_exc = None
        if st.finalbody:
            # exceptional routes run a second copy of the final body (built first, in the outer
            # context, so that node_of() maps the statements to the normal copy built last) and
            # then re-raise towards the enclosing handlers
            final_exc = self._new('finally', st, st)
            exc_out = self._block(st.finalbody, [(final_exc, 'next')])
            rr = self._new('reraise', st, st)
            self._connect(exc_out, rr)
            self._exc_edges(rr)
        ctx = TryCtx(st, hnodes, final_exc)
        self._try_stack.append(ctx)
        body_out = self._block(st.body, frontier)
        self._try_stack.pop()
        out = []
        if final_exc is not None:
            # exceptions raised in handler bodies / the else clause also pass the final body
            self._try_stack.append(TryCtx(st, [], final_exc))
        for h, hn in zip(st.handlers, hnodes):
            self._handler_stack.append(h)
            hn.in_handler = tuple(self._handler_stack)
            out += self._block(h.body, [(hn, 'next')])
            self._handler_stack.pop()
        if st.orelse:
            out += self._block(st.orelse, body_out)
        else:
            out += body_out
        if final_exc is not None:
            self._try_stack.pop()
        if st.finalbody:
            out = self._block(st.finalbody, out)
        self._handler_stack = saved_h
        return out

    # -- lookups ---------------------------------------------------------
    def node_of(self, astnode):
        """cfg node of a statement / test / handler"""
        return self._node_of.get(astnode)

    def node_containing(self, astnode):
        n = astnode
        while n is not None:
            if n in self._node_of:
                cn = self._node_of[n]
                # If/While/For statements map to their header; a node nested in
                # the body has a closer mapped ancestor, found first
                return cn
            n = getattr(n, '_parent', None)
        return None

    def stmt_nodes(self):
        return [n for n in self.nodes if n.kind in ('stmt', 'test', 'for', 'with', 'handler')]

    def handlers_reached_from(self, node):
        return [s for s, lab in node.succ if lab == 'exc' and s.kind == 'handler']

    def escapes(self, node):
        """may an exception raised at node leave the function?"""
        return any(s is self.raise_exit and lab == 'exc' for s, lab in node.succ)

    def loop_body(self, header):
        """nodes inside the loop whose header is ``header``"""
        return [n for n in self.nodes if header in n.loop_stack]

    def loops(self):
        return [n for n in self.nodes if n.kind in ('for',) or
                (n.kind == 'test' and isinstance(n.stmt, ast.While))]

    # -- graph queries ---------------------------------------------------
    def reachable(self, start, avoid=(), labels=None, start_labels=None):
        """nodes reachable from ``start`` (exclusive unless on a cycle) not
        entering nodes in ``avoid``; ``labels``: predicate on edge labels"""
        avoid = set(avoid)
        seen = set()
        dq = deque()
        for s, lab in start.succ:
            if start_labels is not None and not start_labels(lab):
                continue
            if labels is not None and not labels(lab):
                continue
            if s not in avoid and s not in seen:
                seen.add(s)
                dq.append(s)
        while dq:
            n = dq.popleft()
            for s, lab in n.succ:
                if labels is not None and not labels(lab):
                    continue
                if s in avoid or s in seen:
                    continue
                seen.add(s)
                dq.append(s)
        return seen

    def _with_copies(self, nodes):
        """a statement of a ``finally`` body has two nodes (normal and exceptional route):
        a set of nodes given by a rule stands for all copies of the same statements"""
        nodes = set(nodes)
        if getattr(self, '_by_ast', None) is None:
            self._by_ast = {}
            for n in self.nodes:
                if n.ast is not None and n.kind in ('stmt', 'test', 'for', 'with'):
                    self._by_ast.setdefault(id(n.ast), []).append(n)
        out = set(nodes)
        for n in nodes:
            if n.ast is not None and n.kind in ('stmt', 'test', 'for', 'with'):
                out.update(self._by_ast.get(id(n.ast), ()))
        return out

    def bool_flags(self):
        """locals used as boolean flags: every definition is the constant True or False"""
        if getattr(self, '_flags', None) is None:
            defs = {}
            bad = set(getattr(self.unit, 'all_params', None) or self.unit.params)
            for n in self.unit.own_nodes():
                if isinstance(n, ast.Assign) and len(n.targets) == 1 and isinstance(n.targets[0], ast.Name) \
                        and isinstance(n.value, ast.Constant) and isinstance(n.value.value, bool):
                    defs.setdefault(n.targets[0].id, []).append(n.value.value)
                elif isinstance(n, ast.Name) and isinstance(n.ctx, (ast.Store, ast.Del)):
                    pass
            stores = {}
            for n in self.unit.own_nodes():
                if isinstance(n, ast.Name) and isinstance(n.ctx, (ast.Store, ast.Del)):
                    stores[n.id] = stores.get(n.id, 0) + 1
                elif isinstance(n, (ast.Global, ast.Nonlocal)):
                    bad.update(n.names)
            captured = set()
            for n in ast.walk(self.unit.node):
                if n is not self.unit.node and isinstance(n, (ast.FunctionDef, ast.AsyncFunctionDef, ast.Lambda)):
                    for x in ast.walk(n):
                        if isinstance(x, ast.Name):
                            captured.add(x.id)
            self._flags = {k for k, v in defs.items() if stores.get(k) == len(v) and k not in bad and k not in captured}
        return self._flags

    def _flag_step(self, n, lab, st):
        """state after leaving node n on edge lab, or None when the edge is infeasible for the
        known flag values (st: frozenset of (flag, value))"""
        flags = self.bool_flags()
        if not flags:
            return st
        a = n.ast
        if n.kind == 'stmt' and isinstance(a, ast.Assign) and len(a.targets) == 1 and isinstance(a.targets[0], ast.Name) \
                and a.targets[0].id in flags and lab != 'exc':
            nm = a.targets[0].id
            return frozenset([x for x in st if x[0] != nm] + [(nm, a.value.value)])
        if n.kind == 'test' and lab in ('true', 'false'):
            t = a
            neg = False
            while isinstance(t, ast.UnaryOp) and isinstance(t.op, ast.Not):
                t, neg = t.operand, not neg
            if isinstance(t, ast.Name) and t.id in flags:
                known = dict(st).get(t.id)
                if known is not None:
                    val = (not known) if neg else known
                    if (lab == 'true') != val:
                        return None
                else:
                    val = (lab == 'true')
                    return frozenset(list(st) + [(t.id, (not val) if neg else val)])
        return st

    def flag_state_in(self, node):
        """values of the boolean flags known on *every* path reaching the entry of node"""
        if getattr(self, '_flag_in', None) is None:
            flags = self.bool_flags()
            IN = {n: None for n in self.nodes}       # None = not reached yet (top)
            IN[self.entry] = frozenset()
            work = deque([self.entry])
            while work:
                n = work.popleft()
                for s, lab in n.succ:
                    st = self._flag_step(n, lab, IN[n]) if flags else frozenset()
                    if st is None:
                        continue
                    new = st if IN[s] is None else (IN[s] & st)
                    if new != IN[s]:
                        IN[s] = new
                        work.append(s)
            self._flag_in = IN
        v = self._flag_in.get(node)
        return v if v is not None else frozenset()

    def find_path(self, start, targets, avoid=(), labels=None, start_labels=None):
        """a witness path (list of (node, label-taken-to-reach-it)) from start
        to any node in targets avoiding ``avoid``; None if none.  Paths that
        contradict the value of a boolean flag local set earlier on the same
        path are not considered."""
        targets = self._with_copies(targets)
        avoid = self._with_copies(avoid)
        prev = {}
        dq = deque()
        st0 = self.flag_state_in(start)
        for s, lab in start.succ:
            if start_labels is not None and not start_labels(lab):
                continue
            if labels is not None and not labels(lab):
                continue
            st = self._flag_step(start, lab, st0)
            if st is None or s in avoid or (s, st) in prev:
                continue
            prev[(s, st)] = ((start, None), lab)
            dq.append((s, st))
        hit = None
        while dq:
            key = dq.popleft()
            n, st = key
            if n in targets:
                hit = key
                break
            for s, lab in n.succ:
                if labels is not None and not labels(lab):
                    continue
                st2 = self._flag_step(n, lab, st)
                if st2 is None or s in avoid or (s, st2) in prev:
                    continue
                prev[(s, st2)] = (key, lab)
                dq.append((s, st2))
        if hit is None:
            return None
        path = []
        key = hit
        while True:
            pk, lab = prev[key]
            path.append((key[0], lab))
            if pk[1] is None and pk[0] is start:
                break
            key = pk
        path.append((start, 'start'))
        path.reverse()
        return path

    def must_pass(self, start, targets, through, labels=None, start_labels=None):
        """every path from start to a node in targets passes through a node of
        ``through``; returns (True, None) or (False, witness path)"""
        p = self.find_path(start, targets, avoid=through, labels=labels, start_labels=start_labels)
        return (p is None), p

    def dominators(self):
        if self._dom is None:
            nodes = self.nodes
            allset = set(nodes)
            dom = {n: set(allset) for n in nodes}
            dom[self.entry] = {self.entry}
            reach = self.reachable(self.entry) | {self.entry}
            changed = True
            order = [n for n in nodes if n in reach]
            while changed:
                changed = False
                for n in order:
                    if n is self.entry:
                        continue
                    preds = [p for p, _ in n.pred if p in reach]
                    if not preds:
                        continue
                    new = set.intersection(*(dom[p] for p in preds)) | {n}
                    if new != dom[n]:
                        dom[n] = new
                        changed = True
            self._dom = dom
        return self._dom

    def dominates(self, a, b):
        return a in self.dominators()[b]

    def format_path(self, path, limit=14):
        out = []
        for n, lab in path[:limit]:
            out.append('%s:%d %s [%s]' % (self.unit.module.relpath, n.lineno, n.label(), lab))
        if len(path) > limit:
            out.append('... (%d more)' % (len(path) - limit))
        return out

    # -- path-sensitive exploration ------------------------------------
    def explore(self, start, state, step, start_edges=None):
        """worklist over (node, state).  ``step(node, label, succ, state)`` is
        called for every edge leaving a visited node and returns the state
        after taking the edge, or None to prune it.  Returns the dict
        {(node, state): predecessor} for witness reconstruction and the set
        of visited (node, state)."""
        seen = {}
        dq = deque()
        first = (start, state)
        seen[first] = None
        dq.append(first)
        while dq:
            n, st = dq.popleft()
            for s, lab in n.succ:
                if n is start and start_edges is not None and not start_edges(lab):
                    continue
                st2 = step(n, lab, s, st)
                if st2 is None:
                    continue
                key = (s, st2)
                if key in seen:
                    continue
                seen[key] = ((n, st), lab)
                dq.append(key)
        return seen

    @staticmethod
    def witness(seen, key):
        path = []
        while key is not None:
            prev = seen[key]
            path.append((key[0], prev[1] if prev else 'start'))
            key = prev[0] if prev else None
        path.reverse()
        return path

    # -- reaching definitions --------------------------------------------
    def defs_at(self, node):
        """names (re)defined by executing ``node`` -> list of (name, value)
        where value is an ast.expr or a marker tuple"""
        out = []
        a = node.ast
        if node.kind == 'stmt':
            if isinstance(a, ast.Assign):
                for t in a.targets:
                    out += self._target_defs(t, a.value)
            elif isinstance(a, ast.AnnAssign) and a.value is not None:
                out += self._target_defs(a.target, a.value)
            elif isinstance(a, ast.AugAssign):
                if isinstance(a.target, ast.Name):
                    out.append((a.target.id, ('aug', a)))
            elif isinstance(a, (ast.FunctionDef, ast.AsyncFunctionDef, ast.ClassDef)):
                out.append((a.name, ('def', a)))
            elif isinstance(a, (ast.Import, ast.ImportFrom)):
                for al in a.names:
                    out.append(((al.asname or al.name).split('.')[0], ('import', a)))
            elif isinstance(a, ast.Delete):
                for t in a.targets:
                    if isinstance(t, ast.Name):
                        out.append((t.id, ('del', a)))
        elif node.kind == 'for':
            out += self._target_defs(a.target, ('iter', a.iter))
        elif node.kind == 'handler':
            if a.name:
                out.append((a.name, ('exc', a)))
        elif node.kind == 'with':
            for it in a.items:
                if it.optional_vars is not None:
                    out += self._target_defs(it.optional_vars, ('with', it.context_expr))
        # walrus
        if a is not None and node.kind in ('stmt', 'test'):
            for n in ast.walk(a) if not isinstance(a, (ast.FunctionDef, ast.ClassDef)) else ():
                if isinstance(n, ast.NamedExpr) and isinstance(n.target, ast.Name):
                    out.append((n.target.id, n.value))
        return out

    def _target_defs(self, t, value):
        if isinstance(t, ast.Name):
            return [(t.id, value)]
        if isinstance(t, (ast.Tuple, ast.List)):
            out = []
            for i, e in enumerate(t.elts):
                if isinstance(value, (ast.Tuple, ast.List)) and len(value.elts) == len(t.elts) \
                        and not any(isinstance(x, ast.Starred) for x in value.elts + t.elts):
                    out += self._target_defs(e, value.elts[i])
                else:
                    out += self._target_defs(e.value if isinstance(e, ast.Starred) else e,
                                             ('unpack', value, i))
            return out
        return []

    def reaching(self):
        """IN sets: node -> {name: set of (defnode, value)}"""
        if self._rd is not None:
            return self._rd
        gen = {}
        for n in self.nodes:
            d = {}
            for name, val in self.defs_at(n):
                d.setdefault(name, []).append((n, val))
            gen[n] = d
        IN = {n: {} for n in self.nodes}
        OUT = {n: {} for n in self.nodes}
        entry_defs = {}
        for p in self.unit.all_params:
            entry_defs[p] = frozenset([ds_key(self.entry, ('param', p))])
        OUT[self.entry] = entry_defs
        work = deque(self.nodes)
        inq = set(self.nodes)
        while work:
            n = work.popleft()
            inq.discard(n)
            if n is self.entry:
                continue
            new_in = {}
            for p, lab in n.pred:
                # an exception edge leaves p before its assignment completes
                srcmap = IN[p] if lab == 'exc' else OUT[p]
                for name, ds in srcmap.items():
                    if name in new_in:
                        new_in[name] = new_in[name] | ds
                    else:
                        new_in[name] = ds
            IN[n] = new_in
            g = gen[n]
            if g:
                out = dict(new_in)
                for name, ds in g.items():
                    out[name] = frozenset(ds_key(dn, v) for dn, v in ds)
            else:
                out = new_in
            if out != OUT[n]:
                OUT[n] = out
                for s, _ in n.succ:
                    if s not in inq:
                        inq.add(s)
                        work.append(s)
        self._rd = (IN, OUT)
        return self._rd

    def reaching_defs(self, node, name, split=True):
        """definitions of ``name`` reaching the *entry* of node: list of
        (defnode, value) with value an ast.expr or marker tuple.  A value that is a
        conditional expression stands for its alternatives (one entry per leaf) unless
        split is False."""
        IN, _ = self.reaching()
        out = [un_key(k) for k in IN[node].get(name, ())]
        if split:
            res = []
            for dn, v in out:
                if isinstance(v, ast.IfExp):
                    res.extend((dn, leaf) for leaf in _leaves(v))
                else:
                    res.append((dn, v))
            return res
        return out

    def reaching_out(self, node, name):
        _, OUT = self.reaching()
        return [un_key(k) for k in OUT[node].get(name, ())]


def _leaves(e):
    if isinstance(e, ast.IfExp):
        return _leaves(e.body) + _leaves(e.orelse)
    return [e]


_KEYED = {}


def ds_key(dn, v):
    k = (dn, id(v))
    _KEYED[k] = (dn, v)
    return k


def un_key(k):
    if k in _KEYED:
        return _KEYED[k]
    return k


def cfg_of(program, unit):
    if unit._cfg is None:
        unit._cfg = CFG(unit, program)
    return unit._cfg
