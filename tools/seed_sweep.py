#!/venv/bin/python
"""re-run all 20 quick checks against every kept seeded change (a scratch copy
of /repo/glom with the patch applied, outside /repo and /verif); updates
meta.json and prints a table.  usage: seed_sweep.py [ids...]"""
import json, os, shutil, subprocess, sys, glob
from concurrent.futures import ThreadPoolExecutor

PY = '/venv/bin/python'
ROOT = '/verif/seeded'


def run(cmd, cwd=None, env=None):
    e = dict(os.environ)
    e.update(env or {})
    p = subprocess.run(cmd, shell=True, cwd=cwd, env=e, capture_output=True, text=True)
    return p.returncode, '\n'.join(l for l in (p.stdout + p.stderr).splitlines() if 'conda' not in l)


def one(sid):
    d = os.path.join(ROOT, sid)
    wt = '/tmp/sweep/%s' % sid
    shutil.rmtree(wt, ignore_errors=True)
    os.makedirs(wt)
    shutil.copytree('/repo/glom', wt + '/glom', ignore=shutil.ignore_patterns('__pycache__', 'test'))
    rc, out = run('patch -p1 -s -d %s < %s/patch.diff' % (wt, d))
    res = {'applies': rc == 0}
    fired, detail = {}, {}
    if rc == 0:
        for i in range(1, 21):
            pid = 'C%02d' % i
            rc2, o = run('%s -m sa %s --tier quick --root %s' % (PY, pid, wt), cwd='/verif', env={'SA_NO_EVIDENCE': '1'})
            if rc2 != 0:
                fired[pid] = rc2
                detail[pid] = [l for l in o.splitlines() if l.startswith('glom/') or l.startswith('ANALYSIS-ERROR')][:4]
    shutil.rmtree(wt, ignore_errors=True)
    res['checks_nonzero'] = fired
    res['check_reports'] = detail
    mp = os.path.join(d, 'meta.json')
    meta = json.load(open(mp))
    meta.update(res)
    own = meta['property']
    meta['caught_by_own_property'] = fired.get(own) == 1
    meta['caught_by_any'] = any(v == 1 for v in fired.values())
    json.dump(meta, open(mp, 'w'), indent=1)
    return sid, res


def main():
    ids = sys.argv[1:] or sorted(os.listdir(ROOT))
    os.makedirs('/tmp/sweep', exist_ok=True)
    with ThreadPoolExecutor(8) as ex:
        results = list(ex.map(one, ids))
    n_own = n_any = 0
    for sid, r in results:
        own = sid.split('-')[0]
        f = r['checks_nonzero']
        o = f.get(own)
        a = [k for k, v in f.items() if v == 1]
        n_own += o == 1
        n_any += bool(a)
        print('%-7s applies=%s own=%s violation-by=%s errors-by=%s' % (sid, r['applies'], {1: 'VIOLATION', 2: 'analysis-error', None: 'miss'}[o],
                                                                  a, [k for k, v in f.items() if v == 2]))
    print('%d seeds: %d caught by own property (exit 1), %d by any' % (len(results), n_own, n_any))
    shutil.rmtree('/tmp/sweep', ignore_errors=True)


main()
