#!/venv/bin/python
"""verify a seeded change delivered by a bug-seeding sub-agent and run all
quick checks against it.  usage: seed_eval.py C05 1 [--keep]"""
import json, os, shutil, subprocess, sys, re

PID, IDX = sys.argv[1], sys.argv[2]
SRC = '/tmp/seed/%s/seed_out' % PID
OUTID = '%s-%s' % (PID, IDX)
if '--src' in sys.argv:
    SRC = sys.argv[sys.argv.index('--src') + 1]
if '--out' in sys.argv:
    OUTID = sys.argv[sys.argv.index('--out') + 1]
WT = '/tmp/seedchk/%s' % OUTID
OUT = '/verif/seeded/%s' % OUTID
PY = '/venv/bin/python'


def run(cmd, cwd=None, env=None, timeout=900):
    e = dict(os.environ)
    if env:
        e.update(env)
    p = subprocess.run(cmd, shell=True, cwd=cwd, env=e, capture_output=True, text=True, timeout=timeout)
    out = '\n'.join(l for l in (p.stdout + p.stderr).splitlines() if 'conda' not in l)
    return p.returncode, out


def main():
    diff = os.path.join(SRC, 'change%s.diff' % IDX)
    demo = os.path.join(SRC, 'demo%s.py' % IDX)
    note = os.path.join(SRC, 'note%s.txt' % IDX)
    for f in (diff, demo):
        if not os.path.exists(f):
            print('missing', f)
            return 2
    os.makedirs('/tmp/seedchk', exist_ok=True)
    run('git -C /repo worktree remove --force %s' % WT)
    rc, out = run('git -C /repo worktree add -q --detach %s HEAD' % WT)
    if rc:
        print(out)
        return 2
    meta = {'property': PID, 'index': int(IDX)}
    try:
        env = {'PYTHONPATH': WT}
        rc0, o0 = run('%s %s' % (PY, demo), cwd=WT, env=env)
        meta['demo_clean_exit'] = rc0
        rc, out = run('git apply %s' % diff, cwd=WT)
        if rc:
            print('patch does not apply:', out)
            meta['applies'] = False
            return 2
        meta['applies'] = True
        rc1, o1 = run('%s %s' % (PY, demo), cwd=WT, env=env)
        meta['demo_patched_exit'] = rc1
        meta['demo_patched_tail'] = o1.strip().splitlines()[-3:]
        rct, ot = run('%s -m pytest -q -p no:cacheprovider --timeout=900 glom/test' % PY, cwd=WT, env=env)
        tail = ot.strip().splitlines()[-1] if ot.strip() else ''
        meta['tests'] = tail
        m = re.search(r'(\d+) failed, (\d+) passed', tail)
        meta['tests_ok'] = bool(m and m.group(1) == '1' and m.group(2) == '199') and 'test_main' in ot
        fired = {}
        detail = {}
        for i in range(1, 21):
            pid = 'C%02d' % i
            rc, o = run('%s -m sa %s --tier quick --root %s' % (PY, pid, WT), cwd='/verif', env={'GLOM_REPO': WT, 'SA_NO_EVIDENCE': '1'})
            if rc != 0:
                fired[pid] = rc
                detail[pid] = [l for l in o.splitlines() if l.startswith('glom/') or l.startswith('ANALYSIS-ERROR')][:6]
        meta['checks_nonzero'] = fired
        meta['check_reports'] = detail
        meta['caught_by_own_property'] = fired.get(PID) == 1
        meta['caught_by_any'] = any(v == 1 for v in fired.values())
        meta['ran'] = ['demo on clean worktree (exit %s)' % rc0, 'git apply', 'demo on patched worktree (exit %s)' % rc1,
                       'pytest on patched worktree: %s' % tail, 'all 20 quick checks with --root <patched worktree>']
        valid = rc0 == 0 and rc1 != 0 and meta['tests_ok']
        meta['valid_seed'] = valid
        if os.path.exists(note):
            meta['needs'] = open(note).read().strip()
        print(json.dumps({k: meta[k] for k in ('valid_seed', 'demo_clean_exit', 'demo_patched_exit', 'tests', 'checks_nonzero')}, indent=1))
        for pid, lines in detail.items():
            for l in lines:
                print('   ', pid, l[:200])
        if valid:
            os.makedirs(OUT, exist_ok=True)
            shutil.copy(diff, os.path.join(OUT, 'patch.diff'))
            shutil.copy(demo, os.path.join(OUT, 'demo.py'))
            with open(os.path.join(OUT, 'meta.json'), 'w') as f:
                json.dump(meta, f, indent=1)
        return 0
    finally:
        run('git -C /repo worktree remove --force %s' % WT)


sys.exit(main())
