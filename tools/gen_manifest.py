#!/venv/bin/python
"""regenerate /verif/MANIFEST.json from the rule registry"""
import json, os, sys
sys.path.insert(0, os.path.dirname(os.path.dirname(os.path.abspath(__file__))))
from sa.rules import all_rule_ids, PROPERTY_INFO, PROPERTIES

TECH = {
    'C01': 'CFG exception-coverage + must-pass (fail-stop) + affine induction analysis of the part index + op-tuple layout agreement (writer vs readers) over the T interpreter',
    'C02': 'op-code exhaustiveness (writer subset-of interpreter) + dunder/operator table agreement + def-use of argument evaluation',
    'C03': 'dominator-based sentinel discipline, per-path evaluate-once, iteration-order and chaining def-use rules over the auto-mode handlers',
    'C04': 'handler-outcome analysis (re-raise discipline), guardedness of user-code re-entry, class-hierarchy and constructor/args agreement (copyability)',
    'C05': 'must-pass bookkeeping on exception edges, reader/writer scope-key agreement, record-layout agreement of the trace reader',
    'C06': 'allocation-site points-to + effect inventory with interprocedural mutation summaries; closed shared-state inventory; memo-key completeness',
    'C07': 'frame-write ownership (reaching definitions of scope variables), flow of the caller scope into copying sinks, who-may-call chain_child',
    'C08': 'must-precede ordering of mode stores, recycler reset rule, bracket (save/set/restore on every path) rule, type-dispatch exhaustiveness',
    'C09': 'raise-class discipline over the hierarchy, effect inventory restricted to matching, structural rules of the dict/sequence/tuple branches',
    'C10': 'raise-class discipline, sibling agreement of comparison-code tables, return-expression and short-circuit rules, option usage',
    'C11': 'write-last ordering on the CFG, affine agreement of the break-point indices, call-graph confinement of the mutation API',
    'C12': 'exception coverage per deletion primitive against miss-class tables + ignore_missing consultation on every handler',
    'C13': 'must-pass memo invalidation after handler stores, memo-key completeness, exact-before-fuzzy ordering, per-instance state, derived known finding',
    'C14': 'worklist/visited-set discipline (dominance + recorded-before-expanded), swallow rules, wildcard op-code agreement across five sites',
    'C15': 'reaching-definition provenance of the accumulator, per-evaluation init(), lazy/eager tables, affine count of Flatten levels',
    'C16': 'per-evaluation allocation of the accumulator tree, effect confinement of aggregators, sentinel dominance in the group dispatcher',
    'C17': 'effect purity and copy-on-write field forwarding of builders, stage-order writer/reader agreement, lazy-combinator tables (boltons parsed)',
    'C18': 'formatter exhaustiveness, inverse root tables, immutability via points-to, affine threshold extraction of the index guard',
    'C19': 'sink confinement over the call graph + control dependence, spec-text taint to an enumerated sink set, def-use from glom() result to print',
    'C20': 'call-graph closure of the evaluator through all indirections + closed shared-state inventory + memo monotonicity + per-call allocation rules',
}
NA = {}

def main():
    ids = all_rule_ids()
    checks = []
    na = []
    for pid in PROPERTIES:
        if pid in ids and pid not in NA:
            inf = dict(PROPERTY_INFO.get(pid, {}))
            # rules registered after the property's summary was written (cross-registrations,
            # later rounds): named by their rule function
            import re as _re
            from sa.rules import rules_for
            mentioned = set(_re.findall(r'C\d\d\.\d+', ' '.join(inf.get('decided', []))))
            extra = ['%s %s' % (rid, fn.__name__.replace('_', ' ')) for rid, fn, *_ in rules_for(pid) if rid not in mentioned]
            if inf.get('decided'):
                inf['decided'] = list(inf['decided']) + extra
            checks.append({
                'property_id': pid,
                'quick_cmd': '/venv/bin/python -m sa %s --tier quick' % pid,
                'thorough_cmd': '/venv/bin/python -m sa %s --tier thorough' % pid,
                'evidence_file': '/verif/evidence/%s.json' % pid,
                'replay_cmd_template': '/venv/bin/python -m sa %s --replay {path}' % pid,
                'engine': 'sa',
                'level_claimed': {
                    'category': 'other',
                    'text': 'all-paths static decision of the named structural clauses (%s); each is a '
                            'necessary condition of the property decided for every input at once from the '
                            'current source; does not decide the behaviour as a whole'
                            % '; '.join(inf.get('decided', ids[pid])),
                    'design_ref': 'DESIGN.md section 4, %s' % pid,
                },
                'level_note': 'decides only the structural clauses; not decided: %s. Trusted: CPython ast parser, '
                              'Python semantics tables (sa/tables.py), hand-confirmed instance floors, the analyser.'
                              % '; '.join(inf.get('not_decided', ['value-level behaviour'])),
                'technique': TECH.get(pid, 'static analysis: AST / CFG / dataflow rules specific to this repository'),
            })
        else:
            na.append({'property_id': pid, 'reason': NA.get(pid, 'static rules for this property are not built yet '
                                                         '(see DESIGN.md section 4 for the planned clauses)')})
    man = {
        'version': 1,
        'setup_cmd': '/venv/bin/python -m compileall -q /verif/sa',
        'hooks': {
            'guard': 'MAHMOUD_GLOM_VERIF',
            'enable': 'none: static checks read the source; no instrumentation is compiled in',
            'baseline_off_cmd': 'cd /repo && /venv/bin/python -m pytest -ra -q -p no:cacheprovider --timeout=900 '
                                '--continue-on-collection-errors',
            'source_commits': [],
            'add_only': True,
        },
        'engines': [{'name': 'sa', 'path': '/verif/sa', 'serves_properties': [c['property_id'] for c in checks],
                     'kind_free_text': 'AST/CFG/dataflow static analyser with repo-specific rules (stdlib only)'}],
        'checks': checks,
        'not_applicable': na,
        'notes': 'Static analysis only: glom is never imported or executed by a check. exit 2 + ANALYSIS-ERROR means '
                 'the analyser could not decide (anchor vanished / unsupported construct), never a silent pass.',
    }
    with open(os.path.join(os.path.dirname(os.path.dirname(os.path.abspath(__file__))), 'MANIFEST.json'), 'w') as f:
        json.dump(man, f, indent=1)
    print('checks:', [c['property_id'] for c in checks], 'n/a:', [n['property_id'] for n in na])

main()
