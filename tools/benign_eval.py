#!/venv/bin/python
"""evaluate behaviour-preserving refactorings delivered by maintainer sub-agents:
every check must stay silent.  usage: benign_eval.py B01 [B02 ...]   or  --sweep (re-run kept ones)"""
import json, os, shutil, subprocess, sys, re, glob

PY = '/venv/bin/python'
KEEP = '/verif/benign'


def run(cmd, cwd=None, env=None):
    e = dict(os.environ)
    e.update(env or {})
    p = subprocess.run(cmd, shell=True, cwd=cwd, env=e, capture_output=True, text=True)
    return p.returncode, '\n'.join(l for l in (p.stdout + p.stderr).splitlines() if 'conda' not in l)


def check_patch(diff_path, with_tests=True):
    import threading
    wt = '/tmp/benignchk/%d-%d' % (os.getpid(), threading.get_ident())
    shutil.rmtree(wt, ignore_errors=True)
    os.makedirs(wt)
    shutil.copytree('/repo/glom', wt + '/glom', ignore=shutil.ignore_patterns('__pycache__'))
    for f in ('pytest.ini', 'setup.py'):
        if os.path.exists('/repo/' + f):
            shutil.copy('/repo/' + f, wt)
    rc, out = run('patch -p1 -s -d %s < %s' % (wt, diff_path))
    res = {'applies': rc == 0}
    if rc == 0:
        if with_tests:
            rct, ot = run('%s -m pytest -q -p no:cacheprovider --timeout=900 glom/test' % PY, cwd=wt, env={'PYTHONPATH': wt})
            tail = ot.strip().splitlines()[-1] if ot.strip() else ''
            res['tests'] = tail
            m = re.search(r'(\d+) failed, (\d+) passed', tail)
            res['tests_ok'] = bool(m and m.group(1) == '1' and int(m.group(2)) >= 170)
        alarms, detail = {}, {}
        for i in range(1, 21):
            pid = 'C%02d' % i
            rc2, o = run('%s -m sa %s --tier quick --root %s' % (PY, pid, wt), cwd='/verif', env={'SA_NO_EVIDENCE': '1'})
            if rc2 != 0:
                alarms[pid] = rc2
                detail[pid] = [l for l in o.splitlines() if l.startswith('glom/') or l.startswith('ANALYSIS-ERROR')][:5]
        res['alarms'] = alarms
        res['alarm_reports'] = detail
    shutil.rmtree(wt, ignore_errors=True)
    return res


def main():
    args = sys.argv[1:]
    os.makedirs('/tmp/benignchk', exist_ok=True)
    if args and args[0] == '--sweep':
        n = bad = 0
        from concurrent.futures import ThreadPoolExecutor
        dirs = sorted(glob.glob(KEEP + '/*'))
        with ThreadPoolExecutor(8) as ex:
            results = list(ex.map(lambda d: check_patch(d + '/patch.diff', with_tests=False), dirs))
        for d, r in zip(dirs, results):
            n += 1
            meta = json.load(open(d + '/meta.json'))
            meta.update({'alarms': r.get('alarms'), 'alarm_reports': r.get('alarm_reports'), 'applies': r['applies']})
            json.dump(meta, open(d + '/meta.json', 'w'), indent=1)
            if r.get('alarms') or not r['applies']:
                bad += 1
                print(os.path.basename(d), 'applies=%s' % r['applies'], r.get('alarms'))
                for pid, ls in (r.get('alarm_reports') or {}).items():
                    for l in ls[:3]:
                        print('     ', pid, l[:230])
        print('%d refactorings, %d with alarms' % (n, bad))
        return
    from concurrent.futures import ThreadPoolExecutor
    jobs = []
    for bid in args:
        src = '/tmp/seed/%s/refactor_out' % bid
        for i in range(1, 9):
            diff = '%s/refactor%d.diff' % (src, i)
            if os.path.exists(diff):
                jobs.append((bid, i, src, diff))
    with ThreadPoolExecutor(8) as ex:
        results = list(ex.map(lambda j: check_patch(j[3]), jobs))
    for (bid, i, src, diff), r in zip(jobs, results):
        if True:
            print('%s-%d' % (bid, i), {k: r.get(k) for k in ('applies', 'tests', 'alarms')})
            for pid, ls in (r.get('alarm_reports') or {}).items():
                for l in ls[:4]:
                    print('     ', pid, l[:230])
            if r['applies'] and r.get('tests_ok'):
                out = '%s/%s-%d' % (KEEP, bid, i)
                os.makedirs(out, exist_ok=True)
                shutil.copy(diff, out + '/patch.diff')
                note = '%s/note%d.txt' % (src, i)
                meta = {'id': '%s-%d' % (bid, i), 'kind': 'behaviour-preserving refactoring by a maintainer sub-agent',
                        'note': open(note).read().strip() if os.path.exists(note) else '', **r}
                json.dump(meta, open(out + '/meta.json', 'w'), indent=1)


main()
