#!/venv/bin/python
"""Blind-spot survey: generic AST mutants of glom (not property-specific), each analysed by
all 20 checks in memory.  Survivors (no check reports a new violation or analysis error) are
then run against the pinned test suite in a scratch copy; the ones that also pass the tests
are listed for triage (equivalent / outside every property / a missing rule).

usage: mutation_survey.py [--sample N] [--seed S] [--jobs J] [--out FILE] [--only module.func]
This is a development aid; no registered check depends on it."""
import ast, copy, json, os, random, shutil, subprocess, sys, time, multiprocessing

sys.path.insert(0, os.path.dirname(os.path.dirname(os.path.abspath(__file__))))
from sa.program import Program, read_sources, AnalysisError  # noqa
from sa.framework import run_rules  # noqa
from sa.rules import PROPERTIES  # noqa

SKIP_FILES = ('glom/tutorial.py', 'glom/_version.py', 'glom/__main__.py', 'glom/__init__.py')

FLIP = {ast.Lt: ast.LtE, ast.LtE: ast.Lt, ast.Gt: ast.GtE, ast.GtE: ast.Gt, ast.Eq: ast.NotEq, ast.NotEq: ast.Eq,
        ast.Is: ast.IsNot, ast.IsNot: ast.Is, ast.In: ast.NotIn, ast.NotIn: ast.In}


def sites(tree):
    """yield (kind, description, mutator) where mutator(tree_copy_node) mutates in place;
    nodes are addressed by their index in ast.walk order"""
    nodes = list(ast.walk(tree))
    index = {id(n): i for i, n in enumerate(nodes)}
    funcs = [n for n in nodes if isinstance(n, (ast.FunctionDef, ast.AsyncFunctionDef))]
    infunc = set()
    owner = {}
    for f in funcs:
        for n in ast.walk(f):
            infunc.add(id(n))
            owner.setdefault(id(n), f.name)
    parents = {}
    for n in nodes:
        for c in ast.iter_child_nodes(n):
            parents[id(c)] = n
    out = []
    for n in nodes:
        if id(n) not in infunc:
            continue
        i = index[id(n)]
        fn = owner.get(id(n))
        ln = getattr(n, 'lineno', 0)
        if isinstance(n, ast.Compare) and len(n.ops) == 1 and type(n.ops[0]) in FLIP:
            out.append(('cmp', '%s:%d flip %s' % (fn, ln, type(n.ops[0]).__name__), i, None))
        elif isinstance(n, ast.BoolOp):
            out.append(('bool', '%s:%d and<->or' % (fn, ln), i, None))
        elif isinstance(n, ast.UnaryOp) and isinstance(n.op, ast.Not):
            out.append(('not', '%s:%d drop not' % (fn, ln), i, None))
        elif isinstance(n, ast.Constant) and isinstance(n.value, bool):
            out.append(('const', '%s:%d %r -> %r' % (fn, ln, n.value, not n.value), i, None))
        elif isinstance(n, ast.Constant) and isinstance(n.value, int) and not isinstance(n.value, bool) and -2 <= n.value <= 3:
            par = parents.get(id(n))
            if not isinstance(par, ast.Expr):
                out.append(('const', '%s:%d %r -> %r' % (fn, ln, n.value, n.value + 1), i, None))
        elif isinstance(n, ast.ExceptHandler) and n.type is not None:
            if isinstance(n.type, ast.Tuple) and len(n.type.elts) > 1:
                for k in range(len(n.type.elts)):
                    out.append(('except', '%s:%d drop handler class #%d' % (fn, ln, k), i, k))
            elif isinstance(n.type, ast.Name) and n.type.id in ('Exception', 'GlomError'):
                out.append(('except', '%s:%d narrow %s to ValueError' % (fn, ln, n.type.id), i, None))
        elif isinstance(n, ast.Call):
            pos = [a for a in n.args if isinstance(a, (ast.Name, ast.Attribute, ast.Constant))]
            if len(n.args) >= 2 and len(pos) == len(n.args) and ast.dump(n.args[0]) != ast.dump(n.args[1]):
                out.append(('swap', '%s:%d swap first two args of %s' % (fn, ln, ast.unparse(n.func)[:30]), i, None))
            f = n.func
            if isinstance(f, ast.Name) and f.id in ('dict', 'list', 'tuple', 'set') and len(n.args) == 1 and not n.keywords:
                out.append(('alias', '%s:%d %s(x) -> x' % (fn, ln, f.id), i, None))
            if isinstance(f, ast.Attribute) and f.attr == 'copy' and not n.args:
                out.append(('alias', '%s:%d x.copy() -> x' % (fn, ln), i, None))
        elif isinstance(n, (ast.Continue, ast.Break)):
            out.append(('jump', '%s:%d %s -> pass' % (fn, ln, type(n).__name__.lower()), i, None))
        elif isinstance(n, ast.Expr) and isinstance(n.value, ast.Call):
            out.append(('del', '%s:%d delete `%s`' % (fn, ln, ast.unparse(n)[:50]), i, None))
        elif isinstance(n, ast.Assign) and isinstance(n.targets[0], (ast.Subscript, ast.Attribute)):
            out.append(('del', '%s:%d delete `%s`' % (fn, ln, ast.unparse(n)[:50]), i, None))
        elif isinstance(n, ast.AugAssign):
            out.append(('del', '%s:%d delete `%s`' % (fn, ln, ast.unparse(n)[:50]), i, None))
        elif isinstance(n, ast.Return) and n.value is not None and not isinstance(n.value, ast.Constant):
            out.append(('ret', '%s:%d return None instead of `%s`' % (fn, ln, ast.unparse(n.value)[:40]), i, None))
    return out


def apply(tree, kind, i, extra):
    t = copy.deepcopy(tree)
    nodes = list(ast.walk(t))
    n = nodes[i]
    parents = {}
    for x in nodes:
        for f, v in ast.iter_fields(x):
            if isinstance(v, list):
                for k, c in enumerate(v):
                    if isinstance(c, ast.AST):
                        parents[id(c)] = (x, f, k)
            elif isinstance(v, ast.AST):
                parents[id(v)] = (x, f, None)

    def replace(node, new):
        p, f, k = parents[id(node)]
        if k is None:
            setattr(p, f, new)
        else:
            getattr(p, f)[k] = new
    if kind == 'cmp':
        n.ops = [FLIP[type(n.ops[0])]()]
    elif kind == 'bool':
        n.op = ast.Or() if isinstance(n.op, ast.And) else ast.And()
    elif kind == 'not':
        replace(n, n.operand)
    elif kind == 'const':
        n.value = (not n.value) if isinstance(n.value, bool) else n.value + 1
    elif kind == 'except':
        if extra is None:
            n.type = ast.Name(id='ValueError', ctx=ast.Load())
        else:
            del n.type.elts[extra]
            if len(n.type.elts) == 1:
                n.type = n.type.elts[0]
    elif kind == 'swap':
        n.args[0], n.args[1] = n.args[1], n.args[0]
    elif kind == 'alias':
        replace(n, n.args[0] if n.args else n.func.value)
    elif kind in ('jump', 'del'):
        replace(n, ast.Pass())
    elif kind == 'ret':
        n.value = ast.Constant(value=None)
    return ast.fix_missing_locations(t)


_BASE = {}


def _init(sources):
    global _SRC
    _SRC = sources


def job(arg):
    path, kind, desc, i, extra = arg
    src = dict(_SRC)
    tree = ast.parse(src[path])
    try:
        src[path] = ast.unparse(apply(tree, kind, i, extra))
        ast.parse(src[path])
    except Exception as e:
        return (path, kind, desc, 'gen-error', [])
    fired = []
    try:
        prog = Program(src)
    except Exception as e:
        return (path, kind, desc, 'caught', ['load: %s' % e])
    for pid in PROPERTIES:
        try:
            ctx, errors = run_rules(prog, pid, 'quick')
        except Exception as e:
            fired.append(pid + '!')
            continue
        viol = {(o.rule, o.qual) for o in ctx.obs if o.verdict == 'violation'}
        if viol - _BASE_VIOL.get(pid, set()):
            fired.append(pid)
        elif errors:
            fired.append(pid + '?')
    return (path, kind, desc, 'caught' if fired else 'survived', fired, src[path] if not fired else None)


def base_job(pid):
    prog = Program(dict(_SRC))
    ctx, errors = run_rules(prog, pid, 'quick')
    return pid, {(o.rule, o.qual) for o in ctx.obs if o.verdict == 'violation'}


def run_tests(path, text, idx):
    wt = '/tmp/mutsurvey/%d' % idx
    shutil.rmtree(wt, ignore_errors=True)
    os.makedirs(wt)
    shutil.copytree('/repo/glom', wt + '/glom', ignore=shutil.ignore_patterns('__pycache__'))
    open(os.path.join(wt, path), 'w').write(text)
    e = dict(os.environ)
    e['PYTHONPATH'] = wt
    p = subprocess.run('/venv/bin/python -m pytest -q -x -p no:cacheprovider --timeout=120 glom/test --deselect glom/test/test_cli.py::test_main',
                       shell=True, cwd=wt, env=e, capture_output=True, text=True)
    shutil.rmtree(wt, ignore_errors=True)
    tail = [l for l in p.stdout.splitlines() if l.strip()][-1:] or ['']
    return p.returncode == 0, tail[0]


def main():
    import argparse
    ap = argparse.ArgumentParser()
    ap.add_argument('--sample', type=int, default=400)
    ap.add_argument('--seed', type=int, default=1)
    ap.add_argument('--jobs', type=int, default=16)
    ap.add_argument('--out', default='/tmp/mutsurvey.json')
    ap.add_argument('--only', default=None)
    ap.add_argument('--rerun', default=None, help='JSON of an earlier survey: re-run only its test-passing survivors')
    args = ap.parse_args()
    sources = read_sources()
    allm = []
    for path, text in sorted(sources.items()):
        if path in SKIP_FILES:
            continue
        for kind, desc, i, extra in sites(ast.parse(text)):
            if args.only and not desc.startswith(args.only + ':'):
                continue
            allm.append((path, kind, desc, i, extra))
    if args.rerun:
        want = {tuple(x) for x in json.load(open(args.rerun))['survived_and_tests_pass']}
        allm = [m for m in allm if (m[0], m[1], m[2]) in want]
    random.Random(args.seed).shuffle(allm)
    sample = allm[:args.sample]
    print('%d mutation sites, sampling %d' % (len(allm), len(sample)))
    global _BASE_VIOL
    _init(sources)
    with multiprocessing.Pool(args.jobs, initializer=_init, initargs=(sources,)) as pool:
        _BASE_VIOL = dict(pool.map(base_job, PROPERTIES))
    t0 = time.time()
    with multiprocessing.Pool(args.jobs, initializer=_init2, initargs=(sources, _BASE_VIOL)) as pool:
        res = pool.map(job, sample, chunksize=1)
    caught = [r for r in res if r[3] == 'caught']
    surv = [r for r in res if r[3] == 'survived']
    print('%d caught, %d survived the checks (%.0fs)' % (len(caught), len(surv), time.time() - t0))
    # survivors vs the test suite
    from concurrent.futures import ThreadPoolExecutor
    with ThreadPoolExecutor(args.jobs) as ex:
        tests = list(ex.map(lambda a: run_tests(a[1][0], a[1][5], a[0]), enumerate(surv)))
    both = [(r, t) for r, t in zip(surv, tests) if t[0]]
    print('%d survivors also pass the test suite' % len(both))
    for r, t in sorted(both, key=lambda x: (x[0][0], x[0][2])):
        print('  %-18s %-7s %s' % (r[0], r[1], r[2]))
    json.dump({'sites': len(allm), 'sampled': len(sample), 'caught': len(caught), 'survived': len(surv),
               'survived_and_tests_pass': [[r[0], r[1], r[2]] for r, _ in both],
               'caught_by': {r[2]: r[4] for r in caught}}, open(args.out, 'w'), indent=1)


def _init2(sources, base):
    global _SRC, _BASE_VIOL
    _SRC = sources
    _BASE_VIOL = base


if __name__ == '__main__':
    main()
